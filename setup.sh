#!/bin/bash
# Offline setup: nothing to build (pure Python on /venv); create scratch dirs and warm the numba cache.
cd "$(dirname "$(readlink -f "$0")")" || exit 2
mkdir -p .scratch/numba_cache evidence replays
export NUMBA_CACHE_DIR="$PWD/.scratch/numba_cache"
/venv/bin/python - <<'PY'
import numpy as np
from outrank.algorithms.feature_ranking import ranking_mi_numba as m
m.mutual_info_estimator_numba(np.array([0,1],dtype=np.int32), np.array([0,1],dtype=np.int32), np.float32(1.0), False)
print("setup ok")
PY
