"""C19 - synthetic categorical data respects its declared shape, domains and seed."""
from __future__ import annotations

import contextlib
import io
import itertools
import os

import numpy as np

from mc import explore, harness
from mc.common import HarnessError, Stats, pmap, safe, scratch_dir, rm_scratch

PROPERTY = 'C19'
LEVEL = 'exploration'
RULE = ('(i) generate_data with numpy.random.{choice,randint,shuffle,seed} replaced by a controlled generator in which every single draw is a choice point; tiny configurations '
        '(n_features<=3, n_samples<=3, cardinality<=3, ensure_rep on/off, random_values with high-low<=3, structures mixing (index,cardinality), (index,value list), (index,[values,frequencies]), '
        '([indices],...)); every execution with <= D non-default answers is run (D=3 quick / 4 thorough; closure where the space is small); oracle holds for every answer, hence for every seed; '
        '(ii) the real generator over the seed window VERIF_SEED*W..+W-1 x a parameter grid x the structure menu: same oracles + reproducibility; naive generator sizes 31..33 x rows; '
        'the data_generator task. distinct_nontrivial = executions / grid points with >= 2 samples and a domain of >= 2 values')
ASSUMPTIONS = ['the controlled generator answers cover the support of the real one (a draw with probability vector p ranges over the entries with p>0)',
               'structure descriptions list ascending, distinct, in-range indices (others do not describe a data set)']


def gen_cls():
    from outrank.algorithms.synthetic_data_generators.cc_generator import CategoricalClassification
    return CategoricalClassification


# ---------------- controlled random generator ----------------------------------------------------------

class ControlledRandom:
    def __init__(self, chooser):
        self.ch = chooser

    def seed(self, s=None):
        return None

    def randint(self, low, high=None, size=None, dtype=int):
        if high is None:
            low, high = 0, low
        if size is None:
            return low + self.ch.pick(high - low, 'randint')
        n = int(np.prod(size))
        return np.array([low + self.ch.pick(high - low, 'randint') for _ in range(n)]).reshape(size)

    def choice(self, a, size=None, replace=True, p=None):
        arr = np.arange(a) if isinstance(a, (int, np.integer)) else np.array(list(a))
        support = list(range(len(arr))) if p is None else [i for i, q in enumerate(p) if q > 0]
        n = 1 if size is None else (int(size) if not isinstance(size, tuple) else int(np.prod(size)))
        if len(support) == 0 and n > 0:
            raise ValueError("'a' cannot be empty unless no samples are taken")   # numpy's own answer
        if not replace and n > len(support):
            raise ValueError("Cannot take a larger sample than population when 'replace=False'")
        if size is None:
            return arr[support[self.ch.pick(len(support), 'choice')]]
        out = []
        for _ in range(n):
            j = self.ch.pick(len(support), 'choice')
            out.append(arr[support[j]])
            if not replace:
                support.pop(j)
        return np.array(out, dtype=arr.dtype) if out else np.array([], dtype=arr.dtype)

    def shuffle(self, x):
        for i in range(len(x) - 1, 0, -1):
            j = self.ch.pick(i + 1, 'shuffle')
            j = i - j   # default answer 0 keeps the element in place
            x[i], x[j] = x[j], x[i]

    def normal(self, *a, **k):
        raise HarnessError('normal() not expected in generate_data')


@contextlib.contextmanager
def patched_random(ctrl):
    names = ['seed', 'randint', 'choice', 'shuffle']
    old = {n: getattr(np.random, n) for n in names}
    for n in names:
        setattr(np.random, n, getattr(ctrl, n))
    try:
        yield
    finally:
        for n in names:
            setattr(np.random, n, old[n])


# ---------------- oracle ------------------------------------------------------------------------------

def declared_domains(cfg):
    """per column: (kind, domain) with kind in {'range','list','random'}"""
    nf = cfg['n_features']
    default = ('random', (cfg.get('low', 0), cfg.get('high', 1000), cfg['cardinality'])) if cfg.get('random_values') else \
              ('list', list(range(cfg.get('low', 0), cfg.get('low', 0) + cfg['cardinality'])))
    cols = [default] * nf
    for entry in cfg.get('structure') or []:
        ixs, attrs = entry
        ixs = ixs if isinstance(ixs, list) else [ixs]
        if isinstance(attrs, list):
            dom = ('list', list(attrs[0])) if isinstance(attrs[0], list) else ('list', list(attrs))
        else:
            dom = ('random', (cfg.get('low', 0), cfg.get('high', 1000), attrs)) if cfg.get('random_values') else \
                  ('list', list(range(cfg.get('low', 0), cfg.get('low', 0) + attrs)))
        for i in ixs:
            cols[i] = dom
    return cols


def judge_array(cfg, X):
    fails = []
    if not isinstance(X, np.ndarray):
        return [('type', f'returned {type(X).__name__}')]
    if X.shape != (cfg['n_samples'], cfg['n_features']):
        return [('shape', f'shape {X.shape}, requested ({cfg["n_samples"]}, {cfg["n_features"]})')]
    if X.dtype != np.int32:
        fails.append(('dtype', f'dtype {X.dtype}, expected int32'))
    for j, (kind, dom) in enumerate(declared_domains(cfg)):
        col = X[:, j].tolist()
        if kind == 'list':
            bad = [v for v in col if v not in dom]
            if bad:
                fails.append(('domain', f'column {j} takes values {sorted(set(bad))} outside its declared domain {dom}'))
            if cfg.get('ensure_rep') and cfg['n_samples'] >= len(set(dom)) and set(dom) - set(col):
                fails.append(('ensure_rep', f'column {j}: ensure_rep set, {cfg["n_samples"]} samples >= {len(set(dom))} domain values, but {sorted(set(dom) - set(col))} never occur'))
        else:
            low, high, card = dom
            if any(v < low or v > high for v in col):
                fails.append(('domain', f'column {j} leaves [{low},{high}]'))
            if len(set(col)) > card:
                fails.append(('cardinality', f'column {j} has {len(set(col))} distinct values, requested cardinality {card}'))
            if cfg.get('ensure_rep') and cfg['n_samples'] >= card and len(set(col)) != card:
                fails.append(('ensure_rep', f'column {j}: ensure_rep set but only {len(set(col))} of {card} domain values occur'))
    return fails


def call_generate(cfg, g=None):
    g = g if g is not None else gen_cls()()
    kw = {k: cfg[k] for k in ('n_features', 'n_samples', 'cardinality', 'ensure_rep', 'random_values', 'low', 'high', 'k', 'seed') if k in cfg}
    st = cfg.get('structure')
    if st is not None:
        kw['structure'] = [tuple(e) for e in st]
    return g.generate_data(**kw)


def run_controlled(cfg, prefix):
    ch = explore.Chooser(prefix)
    with patched_random(ControlledRandom(ch)):
        X = call_generate(cfg)
    return ch, X


def tiny_configs():
    out = []
    for nf in (1, 2):
        for ns in (1, 2, 3):
            for card in (1, 2, 3):
                for er in (False, True):
                    out.append(dict(n_features=nf, n_samples=ns, cardinality=card, ensure_rep=er))
    for width in (0, 1, 2, 3):
        for card in range(1, width + 2):
            for ns in (1, 2, 3):
                for er in (False, True):
                    out.append(dict(n_features=1, n_samples=ns, cardinality=card, ensure_rep=er, random_values=True, low=5, high=5 + width))
    structs = [
        [[1, 2]],
        [[0, [100, 101]]],
        [[2, [[100, 101, 102], [0.5, 0.5, 0]]]],
        [[[0, 2], [100, 101]]],
        [[[1], 3], [2, [100]]],
        [[0, 1], [1, [7, 8, 9]], [2, [[4, 5], [0.2, 0.8]]]],
        [[1, [100, 101, 102]]],
    ]
    for s in structs:
        for ns in (2, 3):
            for er in (False, True):
                out.append(dict(n_features=3, n_samples=ns, cardinality=2, ensure_rep=er, structure=s))
    # non-default bounds together with a structure that leaves columns before, between and after its entries to the default generator
    for s in ([[1, [1999, -1]]], [[0, [[70000, -5, 1001], [0.3, 0.3, 0.4]]]]):
        for er in (False, True):
            out.append(dict(n_features=2, n_samples=3, cardinality=2, ensure_rep=er, structure=s))
    for er in (False, True):
        # bounds that are zero or negative (0 is a legitimate bound, not 'unset')
        out.append(dict(n_features=1, n_samples=3, cardinality=2, ensure_rep=er, random_values=True, low=-3, high=0))
        out.append(dict(n_features=1, n_samples=2, cardinality=1, ensure_rep=er, random_values=True, low=0, high=0))
        out.append(dict(n_features=1, n_samples=3, cardinality=2, ensure_rep=er, low=-2, high=0))
    for er in (False, True):
        # the default domain is [low, low+cardinality) even when that exceeds `high` (which only bounds random_values)
        out.append(dict(n_features=1, n_samples=4, cardinality=4, ensure_rep=er, low=7, high=9))
    for s in ([[1, [100, 101]]], [[0, [100]]], [[2, [100, 101]]], [[[0, 1], [100]]]):
        for er in (False, True):
            out.append(dict(n_features=4, n_samples=2, cardinality=2, ensure_rep=er, structure=s, low=7, high=9))
            out.append(dict(n_features=4, n_samples=2, cardinality=2, ensure_rep=er, structure=s, low=7, high=9, random_values=True))
    return out


def _controlled_job(job):
    cfgs, max_dev, cap = job
    st = Stats()
    for cfg in cfgs:
        runs = 0
        outcomes = set()

        def body(ch):
            with patched_random(ControlledRandom(ch)):
                return safe(call_generate, cfg)

        for choices, (ok, X) in explore.explore_choices(body, max_dev=max_dev, max_runs=cap):
            runs += 1
            st.count('evaluations')
            if cfg['n_samples'] >= 2:
                st.count('nontrivial')
            if not ok:
                st.violation({'kind': 'controlled', 'cfg': cfg, 'choices': choices}, f'generate_data raised {X} with generator answers {choices}', {'kind': 'exception'})
                continue
            outcomes.add(X.tobytes())
            for kind, msg in judge_array(cfg, X):
                st.violation({'kind': 'controlled', 'cfg': cfg, 'choices': choices}, f'{msg} (cfg {cfg}, generator answers {choices})', {'kind': kind, 'ensure_rep': bool(cfg.get('ensure_rep'))})
        st.see('runs_per_cfg', runs)
        st.count('distinct_outcomes', len(outcomes))
        if runs >= cap:
            st.count('caps_hit')
    st.sample({'kind': 'controlled', 'cfg': cfgs[-1], 'choices': [0, 1, 0]})
    return st


# ---------------- real generator grid -------------------------------------------------------------------

def grid_configs():
    structs = [None, [[1, 3]], [[0, [100, 101, 102]]], [[[0, 2], [50, 60]]], [[1, [[7, 8, 9], [0.1, 0.1, 0.8]]]], [[1, [200, 201]]]]
    for nf in (1, 2, 3, 4):
        for ns in (1, 2, 5, 50):
            for card in (1, 2, 3, 6):
                for k in (1, 10):
                    for er in (False, True):
                        for si, s in enumerate(structs):
                            if s is not None and nf < 3:
                                continue
                            yield dict(n_features=nf, n_samples=ns, cardinality=card, k=k, ensure_rep=er, structure=s)
                            if si in (0, 5) and k == 10:
                                yield dict(n_features=nf, n_samples=ns, cardinality=card, k=k, ensure_rep=er, structure=s, low=20, high=40)
    for er in (False, True):
        yield dict(n_features=2, n_samples=40, cardinality=5, ensure_rep=er, random_values=True, low=-10, high=0)
        yield dict(n_features=2, n_samples=40, cardinality=3, ensure_rep=er, low=-5, high=0)
        yield dict(n_features=2, n_samples=1200, cardinality=1003, ensure_rep=er)
        yield dict(n_features=3, n_samples=6, cardinality=2, ensure_rep=er, structure=[[1, [2500, -3, 1000]]])
    for card in (1, 3, 6):
        for ns in (2, 6, 50):
            for er in (False, True):
                yield dict(n_features=2, n_samples=ns, cardinality=card, ensure_rep=er, random_values=True, low=10, high=10 + card + 2)
                yield dict(n_features=2, n_samples=ns, cardinality=card, ensure_rep=er, random_values=True, low=10, high=10 + card - 1)


def same_instance_seq(c, seed):
    """the data sets one generator object (and a second, pre-used one) returns for configuration c after other use"""
    # non-initial states: the same generator instance called again (after other use of the global random state, and after another seed)
    inst = gen_cls()()
    seq = []
    for step in range(3):
        okk, Xk = safe(call_generate, c, inst)
        seq.append(Xk if okk else None)
        np.random.random(3)
        if step == 1:
            safe(call_generate, dict(c, seed=seed + 1), inst)
        if step == 0:
            # the same object generates a data set over ANOTHER domain of the same size in between (shifted bounds, other value list)
            other = dict(c, low=c.get('low', 0) + 7, high=c.get('high', 1000) + 7)
            if other.get('structure'):
                other['structure'] = [[e[0], ([v + 13 for v in e[1]] if isinstance(e[1], list) and not isinstance(e[1][0], list) else e[1])] for e in other['structure']]
            safe(call_generate, other, inst)
            if not c.get('structure') and not c.get('random_values') and c['cardinality'] >= 2:
                # ... and one over value lists of the same LENGTH but another spacing
                spaced = dict(c, structure=[[list(range(c['n_features'])), [v * 37 for v in range(c['cardinality'])]]])
                safe(call_generate, spaced, inst)
    if not c.get('structure') and not c.get('random_values') and c['cardinality'] >= 2:
        # a generator object that FIRST produced a data set over value lists of the same length but another spacing
        inst2 = gen_cls()()
        safe(call_generate, dict(c, structure=[[list(range(c['n_features'])), [v * 37 for v in range(c['cardinality'])]]]), inst2)
        okk, Xk = safe(call_generate, c, inst2)
        seq.append(Xk if okk else None)
    return seq


def _grid_job(job):
    seeds, lo, hi = job
    st = Stats()
    cfgs = list(grid_configs())[lo:hi]
    for cfg in cfgs:
        arrays = []
        for seed in seeds:
            c = dict(cfg, seed=seed)
            ok, X = safe(call_generate, c)
            st.count('evaluations')
            if cfg['n_samples'] >= 2 and cfg['cardinality'] >= 2:
                st.count('nontrivial')
            if not ok:
                st.violation({'kind': 'grid', 'cfg': c}, f'generate_data raised {X} for {c}', {'kind': 'exception'})
                continue
            for kind, msg in judge_array(c, X):
                st.violation({'kind': 'grid', 'cfg': c}, f'{msg} ({c})', {'kind': kind, 'ensure_rep': bool(cfg.get('ensure_rep'))})
            ok2, X2 = safe(call_generate, c)
            if not ok2 or not np.array_equal(X, X2):
                st.violation({'kind': 'grid', 'cfg': c}, f'same seed and arguments gave a different data set ({c})', {'kind': 'not_reproducible'})
            seq = same_instance_seq(c, seed)
            if any(x is None or not np.array_equal(x, X) for x in seq):
                st.violation({'kind': 'grid', 'cfg': c, 'same_instance': True}, f'repeated generate_data calls on one generator instance with the same seed and arguments differ from the first data set ({c})',
                             {'kind': 'not_reproducible_same_instance'})
            arrays.append(X.tobytes())
        if cfg['n_samples'] >= 5 and cfg['cardinality'] >= 3 and len(seeds) >= 4 and len(set(arrays)) == 1 and not cfg.get('structure'):
            st.violation({'kind': 'grid', 'cfg': cfg}, f'all {len(seeds)} seeds give the same data set ({cfg})', {'kind': 'seed_ignored'})
    if cfgs:
        st.sample({'kind': 'grid', 'cfg': dict(cfgs[-1], seed=seeds[0])})
    return st


def _naive_job(seed):
    from outrank.algorithms.synthetic_data_generators import generator_naive
    from outrank import task_generators
    st = Stats()
    for nf in (31, 32, 33, 40):
        for rows in (1, 2, 7, 50):
            np.random.seed(seed)
            ok, res = safe(generator_naive.generate_random_matrix, nf, rows)
            st.count('evaluations')
            st.count('naive_cases')
            st.count('nontrivial')
            case = {'kind': 'naive', 'features': nf, 'rows': rows, 'seed': seed}
            if not ok:
                st.violation(case, f'generate_random_matrix raised {res}', {'kind': 'exception_naive'})
                continue
            sample, target = res
            if sample.shape != (rows, nf) or len(target) != rows:
                st.violation(case, f'shape {sample.shape} / {len(target)}', {'kind': 'naive_shape'})
                continue
            needle = sample[:, 30].tolist()
            lab = list(target.tolist())
            fmap = {}
            if any(fmap.setdefault(a, b) != b for a, b in zip(needle, lab)):
                st.violation(case, 'label is not a function of the needle column', {'kind': 'naive_label'})
            if set(lab) - {0, 1}:
                st.violation(case, f'label values {set(lab)}', {'kind': 'naive_label_values'})
            np.random.seed(seed)
            s2, t2 = generator_naive.generate_random_matrix(nf, rows)
            if not (np.array_equal(sample, s2) and np.array_equal(target, t2)):
                st.violation(case, 'same numpy seed gives a different matrix', {'kind': 'not_reproducible'})
    # the data_generator task writes exactly (sample, target)
    d = scratch_dir('c19')
    try:
        for nf, rows in ((31, 3), (33, 6)) + (((31, 70000),) if seed % 4 == 0 else ()):   # one run longer than any plausible chunk size
            np.random.seed(seed)
            sample, target = generator_naive.generate_random_matrix(nf, rows)
            args = harness.make_args(task='data_generator', num_synthetic_features=nf, num_synthetic_rows=rows, generator_type='naive', output_synthetic_df_name='synth')
            np.random.seed(seed)
            with harness.in_dir(d):
                ok, r = safe(task_generators.outrank_task_generate_data_set, args)
                st.count('evaluations')
                case = {'kind': 'task', 'features': nf, 'rows': rows, 'seed': seed}
                if not ok:
                    st.violation(case, f'data_generator task raised {r}', {'kind': 'exception_task'})
                    continue
                import csv
                with open(os.path.join(d, 'synth', 'data.csv')) as f:
                    rows_ = list(csv.reader(f))
            hdr, body = rows_[0], rows_[1:]
            exp_hdr = [f'f{i}' for i in range(nf)] + ['label']
            exp_body = [[str(v) for v in sample[i].tolist()] + [str(int(target[i]))] for i in range(rows)]
            if hdr != exp_hdr or body != exp_body:
                st.violation(case, 'data.csv of the data_generator task differs from (sample, target)', {'kind': 'task_csv'})
    finally:
        rm_scratch(d)
    return st


def _dispatch(item):
    k, job = item
    return {'ctrl': _controlled_job, 'grid': _grid_job, 'naive': _naive_job}[k](job)


def run(ctx):
    max_dev = 4 if ctx.thorough else 3
    cap = 200000 if ctx.thorough else 20000
    tc = tiny_configs()
    jobs = [('ctrl', (tc[i::48], max_dev, cap)) for i in range(48) if tc[i::48]]
    W = 40 if ctx.thorough else 6
    seeds = list(range(ctx.seed * W, ctx.seed * W + W))
    ng = sum(1 for _ in grid_configs())
    jobs += [('grid', (seeds, lo, min(ng, lo + 12))) for lo in range(0, ng, 12)]
    jobs += [('naive', s) for s in seeds[:4]]
    for st in pmap(_dispatch, jobs):
        ctx.stats.merge(st)
    ctx.extra['deviation_bound'] = max_dev
    ctx.extra['seed_window'] = [seeds[0], seeds[-1]]
    ctx.extra['caps_hit'] = int(ctx.stats.n['caps_hit'])
    if ctx.stats.n['caps_hit']:
        ctx.exhaustive = False
    if ctx.stats.n['nontrivial'] < 1000:
        raise HarnessError('vacuous')


def eval_case(case):
    k = case['kind']
    if k == 'controlled':
        ch, X = run_controlled(case['cfg'], case['choices'])
        return [m for _, m in judge_array(case['cfg'], X)]
    if k == 'grid':
        ok, X = safe(call_generate, case['cfg'])
        if not ok:
            return [f'raised {X}']
        if case.get('same_instance'):
            seq = same_instance_seq(case['cfg'], case['cfg']['seed'])
            return ['repeated generate_data calls on one generator instance with the same seed and arguments differ from the first data set'] if any(x is None or not np.array_equal(x, X) for x in seq) else []
        return [m for _, m in judge_array(case['cfg'], X)]
    st = _naive_job(case['seed'])
    return [v['what'] for v in st.violations]
