"""C17 - 3MR ranking is a greedy-optimal permutation of the features."""
from __future__ import annotations

import itertools
import statistics

from mc import seqdiff
from mc.common import HarnessError, Stats, pmap, safe

PROPERTY = 'C17'
LEVEL = 'exploration'
RULE = ('rank_features_3MR on every relevance vector over a small value set for n=1..4 features, pair dictionaries that start empty (every '
        'lookup falls back to 0) and receive d non-default entries on ordered pairs (deviation bounding: every placement of d<=2 (quick) / '
        'd<=3 (thorough) entries, values {-1,0.5,1,2}, in the redundancy or the relation dictionary), a dense family over {0,1}, '
        'strategies {median,mean,sum}, (alpha,beta) in {(1,1),(0,1),(1,0),(2,0.5),(0,0)}; structured families for n=5..30; end-to-end: 3mr_ranks.tsv of 16 real pairwise MI-numba-3mr runs judged against the dictionaries rebuilt from pairwise_ranks.tsv; '
        'oracle: permutation, ranks 1..n, first = max relevance, every later pick maximises the recomputed objective (any maximiser accepted). '
        'distinct_nontrivial = cases with n>=3 and at least one non-default pair entry')
ASSUMPTIONS = ['finite scores only (statement); ties: any maximiser accepted, tolerance 1e-12']

NAMES = ['f1', 'b', 'zeta', 'A', 'm5', 'q']
AB = [(1.0, 1.0), (0.0, 1.0), (1.0, 0.0), (2.0, 0.5), (0.0, 0.0)]
STRATS = ['median', 'mean', 'sum']
VALS = [-1, 0.5, 1, 2]


def fn():
    from outrank.algorithms.importance_estimator import rank_features_3MR
    return rank_features_3MR


def agg(vals, strategy):
    if strategy == 'median':
        return statistics.median(vals)
    if strategy == 'mean':
        return statistics.fmean(vals)
    return sum(vals)


def judge(rel, red, rln, strategy, alpha, beta, out):
    """oracle on the returned frame; returns failure strings"""
    fails = []
    try:
        feats = list(out['Feature'])
        ranks = list(out['3MR_Ranking'])
    except Exception as e:  # noqa
        return [f'unexpected return value {type(out).__name__}: {e}']
    n = len(rel)
    if sorted(map(str, feats)) != sorted(map(str, rel.keys())) or len(feats) != n:
        return [f'not a permutation of the features: {feats}']
    if [int(r) for r in ranks] != list(range(1, n + 1)):
        fails.append(f'ranks {ranks} are not 1..{n} in list order')
    if rel[feats[0]] < max(rel.values()):
        fails.append(f'first feature {feats[0]} has relevance {rel[feats[0]]} < max {max(rel.values())}')

    def objective(f, ranked):
        r1 = agg([red.get((r, f), 0) for r in ranked], strategy)
        r2 = agg([rln.get((r, f), 0) for r in ranked], strategy)
        return rel[f] - alpha * r1 + beta * r2

    for pos in range(1, n):
        ranked = feats[:pos]
        remaining = feats[pos:]
        got = objective(feats[pos], ranked)
        best = max(objective(f, ranked) for f in remaining)
        if got < best - 1e-12:
            fails.append(f'position {pos + 1}: placed {feats[pos]} with objective {got}, but a remaining feature reaches {best}')
            break
    return fails


def run_case(case):
    rel = dict(case['rel'])
    red = {tuple(k): v for k, v in case['red']}
    rln = {tuple(k): v for k, v in case['rln']}
    ok, out = safe(fn(), dict(rel), dict(red), dict(rln), case['strategy'], case['alpha'], case['beta'])
    if not ok:
        return [f'exception {out}']
    return judge(rel, red, rln, case['strategy'], case['alpha'], case['beta'], out)


def mk_case(rel, red, rln, strategy, ab):
    return {'rel': [[k, v] for k, v in rel.items()], 'red': [[list(k), v] for k, v in red.items()],
            'rln': [[list(k), v] for k, v in rln.items()], 'strategy': strategy, 'alpha': ab[0], 'beta': ab[1]}


def sparse_jobs(thorough):
    """(n, relevance alphabet, d, ab list) blocks"""
    J = []
    full = [-1, 0, 1, 2]
    for n in (1, 2):
        for d in range(0, 3):
            J.append((n, full, d, AB))
    J.append((3, full, 0, AB))
    J.append((3, full, 1, AB))
    J.append((3, [0, 1, 2], 2, AB if thorough else AB[:1] + AB[3:]))
    J.append((4, full, 0, AB))
    J.append((4, full, 1, AB))
    J.append((4, [0, 1], 2, AB[:1] + AB[3:4] if thorough else AB[:1]))
    if thorough:
        J.append((3, [0, 1, 2], 3, AB))
        J.append((4, [0, 1, 2], 2, AB))
        J.append((3, full, 2, AB))
    return J


def options(n):
    names = NAMES[:n]
    pairs = [(a, b) for a in names for b in names if a != b]
    return [(which, p, v) for which in (0, 1) for p in pairs for v in VALS]


def _sparse(job):
    n, alphabet, d, abs_, lo, hi = job
    st = Stats()
    f = fn()
    names = NAMES[:n]
    opts = options(n)
    combos = list(itertools.combinations(range(len(opts)), d))[lo:hi]
    for combo in combos:
        red, rln = {}, {}
        okc = True
        for ci in combo:
            which, p, v = opts[ci]
            tgt = red if which == 0 else rln
            if p in tgt:
                okc = False   # two values for the same key: not a dictionary
                break
            tgt[p] = v
        if not okc:
            continue
        for relv in itertools.product(alphabet, repeat=n):
            rel = dict(zip(names, relv))
            for strategy in STRATS:
                for ab in abs_:
                    ok, out = safe(f, dict(rel), dict(red), dict(rln), strategy, ab[0], ab[1])
                    st.count('evaluations')
                    if n >= 3 and d >= 1:
                        st.count('nontrivial')
                    if not ok:
                        st.violation(mk_case(rel, red, rln, strategy, ab), f'exception {out}', {'kind': 'exception'})
                        continue
                    fails = judge(rel, red, rln, strategy, ab[0], ab[1], out)
                    if fails:
                        st.violation(mk_case(rel, red, rln, strategy, ab), '; '.join(fails), {'kind': fails[0][:25], 'strategy': strategy})
                    else:
                        st.see('orders', tuple(out['Feature']))
    if lo == 0 and combos:
        st.sample(mk_case(dict(zip(names, alphabet[:1] * n)), red, rln, 'median', AB[0]))
    return st


def _dense(job):
    n, lo, hi = job
    st = Stats()
    f = fn()
    names = NAMES[:n]
    pairs = [(a, b) for a in names for b in names if a != b]
    k = len(pairs)
    for mask in range(lo, hi):
        red = {p: 1 for i, p in enumerate(pairs) if mask >> i & 1}
        rmask = mask >> k
        rln = {p: 1 for i, p in enumerate(pairs) if rmask >> i & 1}
        for relv in itertools.product([0, 1], repeat=n):
            rel = dict(zip(names, relv))
            for strategy in STRATS:
                for ab in (AB[0], AB[3]):
                    ok, out = safe(f, dict(rel), dict(red), dict(rln), strategy, ab[0], ab[1])
                    st.count('evaluations')
                    st.count('nontrivial')
                    st.count('dense')
                    if not ok:
                        st.violation(mk_case(rel, red, rln, strategy, ab), f'exception {out}', {'kind': 'exception'})
                        continue
                    fails = judge(rel, red, rln, strategy, ab[0], ab[1], out)
                    if fails:
                        st.violation(mk_case(rel, red, rln, strategy, ab), '; '.join(fails), {'kind': fails[0][:25], 'strategy': strategy})
    return st


def structured_cases():
    out = []
    for n in range(5, 31):
        names = [f'x{i:02d}' for i in range(n)]
        eq = {a: 1.0 for a in names}
        dec = {a: float(n - i) for i, a in enumerate(names)}
        redundant = {(names[0], names[1]): 5.0, (names[1], names[0]): 5.0}
        chain = {(names[i], names[i + 1]): 0.5 * (i % 3) for i in range(n - 1)}
        full = {(a, b): ((i * 7 + j * 3) % 5) / 4 for i, a in enumerate(names) for j, b in enumerate(names) if a != b}
        for strategy in STRATS:
            out.append(mk_case(eq, {}, {}, strategy, AB[0]))
            out.append(mk_case(dec, redundant, {}, strategy, AB[0]))
            out.append(mk_case(dec, chain, redundant, strategy, AB[3]))
            out.append(mk_case(eq, full, chain, strategy, AB[0]))
            out.append(mk_case(dec, full, full, strategy, AB[3]))
    return out


def precision_cases():
    out = []
    big = float(2 ** 24)
    for strategy in STRATS:
        for ab in (AB[0], AB[3]):
            out.append(mk_case({'f1': big + 1, 'b': big + 2, 'zeta': big, 'A': big + 3}, {}, {}, strategy, ab))
            out.append(mk_case({'f1': 1.0, 'b': 1.0 + 1e-9, 'zeta': 1.0 - 1e-9, 'A': 0.5}, {('b', 'f1'): 0.25, ('b', 'zeta'): 0.25 + 1e-9}, {}, strategy, ab))
            out.append(mk_case({'f1': 5.0, 'b': 1.0, 'zeta': 1.0, 'A': 1.0}, {('f1', 'b'): big, ('f1', 'zeta'): big + 1, ('f1', 'A'): big + 2}, {}, strategy, ab))
            out.append(mk_case({'f1': 5.0, 'b': 0.0, 'zeta': 0.0, 'A': 0.0}, {}, {('f1', 'b'): 1e-9, ('f1', 'zeta'): 2e-9, ('f1', 'A'): 3e-9}, strategy, ab))
    return out


def _structured(_):
    st = Stats()
    for case in structured_cases() + precision_cases():
        fails = run_case(case)
        st.count('evaluations')
        st.count('structured')
        st.count('nontrivial')
        if fails:
            st.violation(case, '; '.join(fails), {'kind': 'structured', 'n': len(case['rel'])})
    return st


def e2e_cases():
    out = []
    for ncols in (2, 3, 4, 5):
        for lpos in (0, ncols):
            for mb in (12, 24):
                out.append({'kind': 'e2e', 'ncols': ncols, 'label_pos': lpos, 'minibatch_size': mb})
                if ncols <= 3:
                    out.append({'kind': 'e2e', 'ncols': ncols, 'label_pos': lpos, 'minibatch_size': mb, 'interaction_order': 2})
    return out


def e2e_text(ncols, lpos):
    from mc.checks.c09 import lcg_stream
    g = lcg_stream(3 + ncols)
    cols = [f'c{j}' if j % 2 else f'z{j}' for j in range(ncols)]
    if ncols >= 3:
        cols[1] = 'BRAND_RELEVANCE'      # an ordinary feature; only ' AND_REL ' (with blanks) marks a relation column
    names = list(cols)
    names.insert(lpos, 'label')
    lines = [','.join(names)]
    for i in range(24):
        row, prev = [], 0
        for j in range(ncols):
            v = (prev + next(g) % (2 + j % 2)) % (j + 3)
            row.append(str(v))
            prev = v * 2 + 1
        row.insert(lpos, str((prev + next(g) % 3 // 2) % 2))
        lines.append(','.join(row))
    return '\n'.join(lines) + '\n', cols


def judge_e2e(case):
    """3mr_ranks.tsv of a real pairwise 3MR run: permutation of the non-label features, ranks 1..n, greedy-optimal w.r.t. the dictionaries rebuilt from pairwise_ranks.tsv"""
    import math
    import pandas as pd
    from mc import pipeline
    text, cols = e2e_text(case['ncols'], case['label_pos'])
    ok, obs = safe(pipeline.run_task, text, dict(heuristic='MI-numba-3mr', target_ranking_only='False', minibatch_size=case['minibatch_size'], subsampling=1,
                                                  include_cardinality_in_feature_names='False', interaction_order=case.get('interaction_order', 1)))
    if not ok:
        return [f'ranking task raised {obs}']
    mr, pw = obs['mrmr'], obs['pairwise']
    if mr is None or pw is None:
        return [f'3mr_ranks.tsv / pairwise_ranks.tsv missing (exit={obs["exit"]})']
    rows = [(a, b, float(s)) for a, b, s in pw[1:]]

    def norm(d):
        if not d:
            return d
        lo, hi = min(d.values()), max(d.values())
        return None if hi == lo else {k: (v - lo) / (hi - lo) for k, v in d.items()}

    rel = norm({a: s for a, b, s in rows if b == 'label' and ' AND_REL ' not in a and a != 'label'})
    rln0 = norm({a: s for a, b, s in rows if b == 'label' and ' AND_REL ' in a})
    red = norm({(a, b): s for a, b, s in rows if a != 'label' and b != 'label' and ' AND_REL ' not in a and ' AND_REL ' not in b})
    if rel is None or red is None or rln0 is None or any(math.isnan(v) for d in (rel, red, rln0) for v in d.values()):
        # a constant score family normalises to 0/0: the three dictionaries are not finite and the statement does not apply
        return ['__degenerate__']
    feats = [r[0] for r in mr[1:]]
    ranks = [int(r[1]) for r in mr[1:]]
    fails = []
    # with interaction_order 2 the ' AND ' features are features as well; relation (' AND_REL ') columns are not
    cols = sorted({x for r in pw[1:] for x in r[:2] if x != 'label' and ' AND_REL ' not in x})
    if case.get('interaction_order', 1) == 1 and cols != sorted(e2e_text(case['ncols'], case['label_pos'])[1]):
        return [f'pairwise_ranks.tsv mentions features {cols}']
    if sorted(feats) != sorted(cols):
        return [f'3mr_ranks.tsv lists {feats}, the non-label features are {cols}']
    if ranks != list(range(1, len(cols) + 1)):
        fails.append(f'ranks {ranks}')
    rln = {}
    for a, s in rln0.items():
        x, y = a.split(' AND_REL ')
        rln[(x, y)] = s
        rln[(y, x)] = s
    fails += judge(rel, red, rln, 'median', 1.0, 1.0, pd.DataFrame({'Feature': feats, '3MR_Ranking': ranks}))
    return fails


def _e2e(_):
    st = Stats()
    for case in e2e_cases():
        fails = judge_e2e(case)
        st.count('evaluations')
        st.count('e2e_cases')
        st.count('nontrivial')
        if '__degenerate__' in fails:
            fails = [f for f in fails if f != '__degenerate__']
        else:
            st.count('e2e_optimality_judged')
        if fails:
            st.violation(case, '; '.join(fails), {'kind': 'e2e'})
    return st


def seq_menu():
    cs = structured_cases()
    picks = [cs[0], cs[1], cs[17], cs[33]]
    picks.append(mk_case({'f1': 1, 'b': 1, 'zeta': 0, 'A': 2}, {('A', 'b'): 1, ('A', 'f1'): 0.5}, {('A', 'zeta'): 2}, 'median', AB[0]))
    picks.append(mk_case({'f1': 1, 'b': 1, 'zeta': 0, 'A': 2}, {('A', 'b'): 1, ('A', 'f1'): 0.5}, {('A', 'zeta'): 2}, 'mean', AB[3]))
    return picks


def seq_call(case):
    rel = dict(case['rel'])
    red = {tuple(k): v for k, v in case['red']}
    rln = {tuple(k): v for k, v in case['rln']}
    out = fn()(rel, red, rln, case['strategy'], case['alpha'], case['beta'])
    return {'features': [str(x) for x in out['Feature']], 'ranks': [int(x) for x in out['3MR_Ranking']], 'inputs_after': [sorted(map(str, rel.items())), sorted(map(str, red.items())), sorted(map(str, rln.items()))]}


def _seqdiff(_):
    st = Stats()
    seqdiff.run(seq_call, seq_menu(), 2, st, lambda seq, pos: {'kind': 'seqdiff', 'seq': list(seq)}, {'kind': 'history_dependent'})
    return st


def _dispatch(item):
    k, job = item
    if k == 'seqdiff':
        return _seqdiff(job)
    if k == 'e2e':
        return _e2e(job)
    return {'sparse': _sparse, 'dense': _dense, 'structured': _structured}[k](job)


def run(ctx):
    import math
    jobs = []
    for n, alphabet, d, abs_ in sparse_jobs(ctx.thorough):
        total = math.comb(len(options(n)), d)
        if total == 0:
            continue
        per = len(alphabet) ** n * len(abs_) * 3
        nsh = max(1, min(64, total * per // 20000))
        step = -(-total // nsh)
        for lo in range(0, total, step):
            jobs.append(('sparse', (n, alphabet, d, abs_, lo, min(total, lo + step))))
    dn = 2 ** 12
    jobs += [('dense', (3, lo, min(dn, lo + 256))) for lo in range(0, dn, 256)]
    if ctx.thorough:
        jobs += [('dense', (4, lo, lo + 128)) for lo in range(0, 2 ** 12, 128)]   # n=4: all redundancy patterns, no relation entries
    jobs.append(('structured', None))
    jobs.append(('seqdiff', None))
    jobs.append(('e2e', None))
    for st in pmap(_dispatch, jobs):
        ctx.stats.merge(st)
    ctx.extra['deviation_bound'] = 3 if ctx.thorough else 2
    if ctx.stats.n['nontrivial'] < 1000 or len(ctx.stats.sets['orders']) < 10:
        raise HarnessError('vacuous')


def eval_case(case):
    if case.get('kind') == 'seqdiff':
        return seqdiff.replay(seq_call, seq_menu(), case['seq'])
    if case.get('kind') == 'e2e':
        return [f for f in judge_e2e(case) if f != '__degenerate__']
    return run_case(case)
