"""C12 - transformations compute what their names say; degenerate ones are dropped; preset lists select the union."""
from __future__ import annotations

import itertools
import math
import re
import warnings

import numpy as np

from mc import seqdiff
from mc.common import HarnessError, Stats, pmap, safe

PROPERTY = 'C12'
LEVEL = 'exploration'
RULE = ('FeatureTransformerGeneric.construct_new_features on every column of length <= 3 over {"", 0, -1, 1, 2, 1e300, -0.0, \'""\', \'"2"\'} extended per fw threshold g '
        'by {g, g-1e-9, g+1e-9} (every where(X<g)/where(X>g) boundary hit exactly and from both sides), for the minimal, default and fw-transformers '
        'presets, every emitted/dropped column judged against an independent scalar formula table keyed by the transformer NAME; one probe column per fw '
        'family containing all thresholds and their neighbours; keep/drop rule on all multisets of length 4..8 (two row orders); every list of <= 3 '
        'preset names (with repetition, every order); sequence differential over <= 3 successive constructor+transform calls with different presets; one transformer object reused on every ordered triple of 5 frames vs a fresh object. distinct_nontrivial = distinct (column, transformer) pairs whose reference output has >= 2 distinct values')
ASSUMPTIONS = ['numeric agreement rtol 1e-9 after parsing the emitted text back to float; NaN == NaN, inf == inf',
               'keep/drop decisions where value-based and text-based distinctness disagree (0.0 vs -0.0) or reference values differ by < 1e-9 relative are classified ambiguous and not judged']

BASE = ['', '0', '-1', '1', '2', '1e300', '-0.0', '""', '"2"']   # quotes are removed before parsing: "" is an empty cell, "2" is 2
INT_G = [1, 2, 4, 8, 16, 32, 64, 96]
PROB_G = [g / 100 for g in INT_G]
RES = [1, 10, 50, 100]


# ---- scalar reference formulas (math module, float64) ------------------------------------------------

def msqrt(x):
    if math.isnan(x) or x < 0:
        return math.nan
    return math.sqrt(x)


def mlog(x):
    if math.isnan(x) or x < 0:
        return math.nan
    if x == 0:
        return -math.inf
    return math.log(x)


def mmul(a, b):
    try:
        return a * b
    except OverflowError:  # pragma: no cover
        return math.inf


def mround(x):
    if isinstance(x, tuple):
        return tuple(mround(v) for v in x)
    if math.isnan(x) or math.isinf(x):
        return x
    return math.copysign(float(round(x)), x)   # keeps the sign of a zero result, like numpy


def mdiv(a, b, zero_sign_unknown=False):
    if b == 0:
        if a == 0 or math.isnan(a):
            return math.nan
        v = math.copysign(math.inf, a) * (math.copysign(1.0, b))
        # the sign of a zero maximum (0.0 vs -0.0 in the same column) is not determined by the statement: accept both
        return (v, -v) if zero_sign_unknown else v
    return a / b


def col_max(col):
    return max(col)


def fw_formula(kind, R, G):
    f = msqrt if kind == 'sqrt' else mlog

    def g(x, col):
        if x < G:
            return x
        if x > G:
            return mround(mmul(f(x - G), R))
        return 0.0
    return g


FW_RE = re.compile(r'^_tr_fw(_prob)?_(sqrt|log)_res_([0-9.]+)_gt_([0-9.]+)$')

NAMED = {
    '_tr_sqrt': lambda x, col: msqrt(x),
    '_tr_log(x+1)': lambda x, col: mlog(x + 1),
    '_tr_sqrt(abs(x))': lambda x, col: msqrt(abs(x)),
    '_tr_log(abs(x)+1)': lambda x, col: mlog(abs(x) + 1),
    '_tr_div(x,abs(x))*log(abs(x))': lambda x, col: mmul(mdiv(x, abs(x)), mlog(abs(x))),
    '_tr_log(x + sqrt(pow(x,2), 1)': lambda x, col: mlog(x + msqrt(mmul(x, x) + 1)),
    '_tr_log*sqrt': lambda x, col: mmul(mlog(x + 1), msqrt(x)),
    '_tr_log*100': lambda x, col: mround(mmul(mlog(x + 1), 100)),
    '_tr_nonzero': lambda x, col: 1.0 if x != 0 else 0.0,
    '_tr_round(div(x,max))': lambda x, col: mround(mdiv(x, col_max(col), zero_sign_unknown=True)),
}


def formula_for(name):
    if name in NAMED:
        return NAMED[name]
    m = FW_RE.match(name)
    if m:
        return fw_formula(m.group(2), float(m.group(3)), float(m.group(4)))
    return None


def parse_cell(s):
    s = str(s).replace('"', '')
    return 0.0 if len(s) == 0 else float(s)


def nan_inf_mul_fix(v):
    return v


def same(a, b):
    if isinstance(b, tuple):
        return any(same(a, x) for x in b)
    if math.isnan(a) or math.isnan(b):
        return math.isnan(a) and math.isnan(b)
    if math.isinf(a) or math.isinf(b):
        return a == b
    return abs(a - b) <= 1e-9 * max(1.0, abs(b))


def rule_keep(ref_vals):
    """keep/drop decision on reference values; returns True / False / None (ambiguous)"""
    n = len(ref_vals)
    if any(isinstance(v, tuple) for v in ref_vals):
        alts = [rule_keep([v[i] if isinstance(v, tuple) else v for v in ref_vals]) for i in (0, 1)]
        return alts[0] if alts[0] == alts[1] else None
    def key_val(v):
        return 'nan' if math.isnan(v) else (v + 0.0 if v != 0 else 0.0)
    def key_txt(v):
        return 'nan' if math.isnan(v) else repr(v)
    out = []
    for key in (key_val, key_txt):
        groups = {}
        for v in ref_vals:
            groups[key(v)] = groups.get(key(v), 0) + 1
        nan_share = groups.get('nan', 0) / n
        maj = max(groups.values()) / n
        out.append(len(groups) > 1 and maj < 0.8 and nan_share < 0.75)
    finite = sorted(v for v in ref_vals if not math.isnan(v) and not math.isinf(v))
    for a, b in zip(finite, finite[1:]):
        if a != b and abs(a - b) <= 1e-9 * max(1.0, abs(b)):
            return None
    if out[0] != out[1]:
        return None
    return out[0]


VAULT0 = None


def vault0():
    """the preset tables as they are at import time (a constructor must never change them)"""
    global VAULT0
    if VAULT0 is None:
        import copy
        from outrank.feature_transformations import feature_transformer_vault as vault
        VAULT0 = copy.deepcopy(vault._tr_global_namespace)
    return VAULT0


def run_transform(cells, preset):
    import pandas as pd
    from outrank.feature_transformations.ranking_transformers import FeatureTransformerGeneric
    df = pd.DataFrame({'n': list(cells), 'label': ['0'] * len(cells)})
    with warnings.catch_warnings():
        warnings.simplefilter('ignore')
        with np.errstate(all='ignore'):
            tr = FeatureTransformerGeneric({'n'}, preset=preset)
            out = tr.construct_new_features(df)
    return tr, out


def judge_column(cells, preset, st, count_nontrivial=True):
    """returns list of (sig, message)"""
    fails = []
    ok, res = safe(run_transform, cells, preset)
    st.count('evaluations')
    if not ok:
        return [({'kind': 'exception', 'preset': preset}, f'construct_new_features raised {res}')]
    tr, out = res
    X = [parse_cell(c) for c in cells]
    if list(out.columns[:2]) != ['n', 'label'] or list(out['n']) != list(cells):
        fails.append(({'kind': 'original_changed'}, 'original columns changed'))
    emitted = {c[len('n'):]: out[c].tolist() for c in out.columns[2:] if str(c).startswith('n_tr')}
    expected_names = list(vault0()[preset].keys()) if ',' not in preset else None
    names = expected_names if expected_names is not None else list(tr.transformer_collection.keys())
    for name in names:
        f = formula_for(name)
        if f is None:
            continue
        ref = [f(x, X) for x in X]
        st.count('transformer_columns')
        if count_nontrivial and len({('nan' if (not isinstance(v, tuple) and math.isnan(v)) else v) for v in ref}) >= 2:
            st.count('nontrivial')
        keep = rule_keep(ref)
        if keep is None:
            st.count('ambiguous_keep_rule')
        got = emitted.get(name)
        if got is not None:
            if len(got) != len(cells):
                fails.append(({'kind': 'length', 'transformer': name}, f'{name}: {len(got)} values for {len(cells)} rows'))
                continue
            try:
                vals = [float(g) for g in got]
            except Exception as e:  # noqa
                fails.append(({'kind': 'text', 'transformer': name}, f'{name}: emitted text not numeric: {got!r}'))
                continue
            bad = [(c, g, r) for c, g, r in zip(cells, vals, ref) if not same(g, r)]
            if bad:
                fam = 'fw' if name.startswith('_tr_fw') else name
                fails.append(({'kind': 'formula', 'transformer': fam}, f'{name} on {list(cells)!r}: emitted {got!r}, named formula gives {ref!r}'))
            if keep is False:
                fails.append(({'kind': 'kept_degenerate', 'transformer': 'fw' if name.startswith('_tr_fw') else name},
                              f'{name} on {list(cells)!r}: emitted although the keep rule says drop (values {ref!r})'))
        else:
            if keep is True:
                fails.append(({'kind': 'dropped_valid', 'transformer': 'fw' if name.startswith('_tr_fw') else name},
                              f'{name} on {list(cells)!r}: not emitted although it has >1 distinct value, majority < 80%, NaN < 75% (values {ref!r})'))
    extra = [k for k in emitted if k not in names]
    if extra:
        fails.append(({'kind': 'unexpected_columns'}, f'columns from transformers outside the preset: {extra[:3]}'))
    return fails


def fmt(g):
    return repr(float(g)) if not float(g).is_integer() else str(int(g))


def alphabet_for(g):
    return BASE + [fmt(g), repr(g - 1e-9), repr(g + 1e-9)]


def _cols_job(job):
    preset, alphabet, maxlen, lo, hi = job
    st = Stats()
    cols = [c for k in range(1, maxlen + 1) for c in itertools.product(alphabet, repeat=k)][lo:hi]
    for cells in cols:
        for sig, msg in judge_column(cells, preset, st):
            st.violation({'kind': 'column', 'cells': list(cells), 'preset': preset}, msg, sig)
    if lo == 0 and cols:
        st.sample({'kind': 'column', 'cells': list(cols[-1]), 'preset': preset})
    return st


def probe_columns():
    out = []
    for fam in (INT_G, PROB_G):
        col = []
        for g in fam:
            col += [fmt(g), repr(g - 1e-9), repr(g + 1e-9), repr(g * 1.5), repr(g + 0.5)]
        col += ['0', '', '1000']
        out.append(col)
        out.append(list(reversed(col)))
    return out


def _probe_job(_):
    st = Stats()
    for col in probe_columns():
        for sig, msg in judge_column(col, 'fw-transformers', st):
            st.violation({'kind': 'column', 'cells': col, 'preset': 'fw-transformers'}, msg, sig)
        st.count('probe_columns')
    return st


def _rule_job(job):
    lo, hi = job
    st = Stats()
    alpha = ['-1', '0', '1', '2']
    ms = [m for n in range(4, 9) for m in itertools.combinations_with_replacement(alpha, n)][lo:hi]
    for m in ms:
        for cells in (list(m), list(reversed(m))):
            for sig, msg in judge_column(cells, 'default', st):
                st.violation({'kind': 'column', 'cells': cells, 'preset': 'default'}, msg, sig)
            st.count('rule_multisets')
    return st


def _presets_job(_):
    from outrank.feature_transformations import feature_transformer_vault as vault
    from outrank.feature_transformations.ranking_transformers import FeatureTransformerGeneric
    st = Stats()
    V0 = vault0()
    names = list(V0.keys())
    lists = [c for r in (1, 2, 3) for c in itertools.product(names, repeat=r)] + [(n_,) for n_ in names]   # single presets again AFTER all lists
    for combo in lists:
        preset = ','.join(combo)
        ok, tr = safe(FeatureTransformerGeneric, {'n'}, preset)
        st.count('evaluations')
        st.count('preset_lists')
        if len(set(combo)) > 1:
            st.count('nontrivial')
        case = {'kind': 'preset', 'preset': preset}
        if not ok:
            st.violation(case, f'preset list {preset!r} raised {tr}', {'kind': 'preset_exception'})
            continue
        exp = {}
        for nm in combo:
            exp.update(V0[nm])
        got = dict(tr.transformer_collection)
        if set(got) != set(exp):
            st.violation(case, f'preset list {preset!r} selects {len(got)} transformers, the union of the named presets has {len(exp)}; missing {sorted(set(exp) - set(got))[:3]} extra {sorted(set(got) - set(exp))[:3]}',
                         {'kind': 'preset_union'})
        elif any(got[k] != exp[k] for k in exp):
            st.violation(case, f'preset list {preset!r}: formula text differs from the presets', {'kind': 'preset_formula'})
    now = {k: dict(v) for k, v in vault._tr_global_namespace.items()}
    if now != {k: dict(v) for k, v in V0.items()}:
        changed = [k for k in V0 if now.get(k) != dict(V0[k])]
        st.violation({'kind': 'preset', 'preset': 'minimal,default|minimal'}, f'constructing transformers changed the shared preset tables {changed}', {'kind': 'preset_tables_mutated'})
    st.sample({'kind': 'preset', 'preset': 'default,minimal'})
    return st


SEQ_MENU = [(('1', '2', '4', '0.5'), 'minimal'), (('', '"3"', '9', '0.02'), 'default'), (('1', '2', '4', '0.5'), 'minimal,default'), (('5', '6', '1', '0.16'), 'fw-transformers'),
            (('1', '2', '4', '0.5'), 'default,minimal'), (('2', '2', '3', '1'), 'minimal')]


def seq_call(x):
    cells, preset = x
    tr, out = run_transform(cells, preset)
    return {'selected': sorted(tr.transformer_collection), 'frame': {str(c): [str(v) for v in out[c].tolist()] for c in out.columns}}


def _seqdiff(_):
    st = Stats()
    seqdiff.run(seq_call, SEQ_MENU, 3, st, lambda seq, pos: {'kind': 'seqdiff', 'seq': list(seq)}, {'kind': 'history_dependent'})
    return st


def _long_job(_):
    """a column longer than any internal block size (5 000 rows) whose maximum sits near the end"""
    st = Stats()
    cells = [str((i * 7) % 13) for i in range(4990)] + ['40', '0.5', '', '96', '97', '-1', '1e3', '64', '0.16', '2']
    for preset in ('minimal', 'default', 'fw-transformers'):
        for sig, msg in judge_column(tuple(cells), preset, st):
            st.violation({'kind': 'long', 'preset': preset}, msg[:500], dict(sig, long=True))
        st.count('long_columns')
    return st


def _formula_text_job(_):
    """extended / verbose / extended_rounded presets (no independent formula table): every emitted column must equal the preset's formula text evaluated on the WHOLE parsed column (aggregates such as mean, std, max are over all rows, duplicates included)"""
    st = Stats()
    cols = [('1', '2', '2', '2', '7', '0.5', '3', '3'), ('4', '4', '4', '1', '9', '2', '2', '0.25'), ('-1', '2', '2', '5', '5', '5', '0', '8'), ('3', '1', '2', '1', '3', '2', '1', '3')]
    for preset in ('extended', 'verbose', 'extended_rounded'):
        for cells in cols:
            ok, res = safe(run_transform, cells, preset)
            st.count('evaluations')
            st.count('formula_text_columns')
            st.count('nontrivial')
            case = {'kind': 'formula_text', 'preset': preset, 'cells': list(cells)}
            if not ok:
                st.violation(case, f'construct_new_features raised {res}', {'kind': 'exception', 'preset': preset})
                continue
            tr, out = res
            X = np.array([parse_cell(c) for c in cells])
            for name, text in vault0()[preset].items():
                colname = 'n' + name
                if colname not in out.columns:
                    continue
                with warnings.catch_warnings():
                    warnings.simplefilter('ignore')
                    with np.errstate(all='ignore'):
                        exp = np.asarray(eval(text, {'np': np, 'X': X})).astype(str).tolist()
                got = [str(v) for v in out[colname].tolist()]
                if got != exp:
                    st.violation(case, f'{preset} {name} on {list(cells)}: emitted {got}, formula on the whole column gives {exp}', {'kind': 'formula_text', 'preset': preset})
                    break
    return st


REUSE_COLS = [('1', '2', '4', '0.5'), ('', '"3"', '9', '0.02'), ('5', '6', '1', '0.16'), ('2', '2', '3', '1'), ('1', '2', '4', '0.5')]


def _reuse_job(_):
    """one transformer object applied to successive frames (non-initial object state): each result must equal that of a fresh object"""
    import pandas as pd
    from outrank.feature_transformations.ranking_transformers import FeatureTransformerGeneric
    st = Stats()

    def frame(cells):
        return pd.DataFrame({'n': list(cells), 'label': ['0'] * len(cells)})

    def obs(df):
        return {str(c): [str(v) for v in df[c].tolist()] for c in df.columns}

    for preset in ('minimal', 'default', 'fw-transformers'):
        for seq in itertools.permutations(range(len(REUSE_COLS)), 3):
            with warnings.catch_warnings():
                warnings.simplefilter('ignore')
                with np.errstate(all='ignore'):
                    tr = FeatureTransformerGeneric({'n'}, preset=preset)
                    for pos, i in enumerate(seq):
                        ok, out = safe(tr.construct_new_features, frame(REUSE_COLS[i]))
                        fresh = FeatureTransformerGeneric({'n'}, preset=preset).construct_new_features(frame(REUSE_COLS[i]))
                        st.count('evaluations')
                        st.count('reuse_calls')
                        if pos:
                            st.count('nontrivial')
                        case = {'kind': 'reuse', 'preset': preset, 'seq': list(seq)}
                        if not ok:
                            st.violation(case, f'call {pos + 1} on a reused transformer raised {out}', {'kind': 'reuse_exception'})
                            break
                        if obs(out) != obs(fresh):
                            bad = [c for c in obs(fresh) if obs(out).get(c) != obs(fresh)[c]][:2]
                            st.violation(case, f'call {pos + 1} of {list(seq)} on a reused {preset} transformer differs from a fresh transformer in columns {bad}: {[obs(out).get(c) for c in bad]} vs {[obs(fresh)[c] for c in bad]}',
                                         {'kind': 'reuse_differs'})
                            break
    return st


def _dispatch(item):
    k, job = item
    if k == 'reuse':
        return _reuse_job(job)
    if k == 'long':
        return _long_job(job)
    if k == 'formula_text':
        return _formula_text_job(job)
    if k == 'enrich':
        # the pipeline's own entry point (enrich_with_transformations) for successive batches with different numeric column sets
        from mc.checks.c11 import _enrich_sets
        return _enrich_sets(job)
    if k == 'seqdiff':
        return _seqdiff(job)
    return {'cols': _cols_job, 'probe': _probe_job, 'rule': _rule_job, 'presets': _presets_job}[k](job)


def run(ctx):
    vault0()
    jobs = []
    n3 = sum(len(BASE) ** k for k in (1, 2, 3))
    n4 = n3 + len(BASE) ** 4
    for preset in ('minimal', 'default'):
        tot = n4 if ctx.thorough else n3
        jobs += [('cols', (preset, BASE, 4 if ctx.thorough else 3, lo, min(tot, lo + 200))) for lo in range(0, tot, 200)]
    gs = INT_G + PROB_G
    maxlen = 3 if ctx.thorough else 2
    for g in gs:
        al = alphabet_for(g)
        tot = sum(len(al) ** k for k in range(1, maxlen + 1))
        jobs += [('cols', ('fw-transformers', al, maxlen, lo, min(tot, lo + 60))) for lo in range(0, tot, 60)]
    jobs.append(('probe', None))
    nms = sum(math.comb(n + 3, 3) for n in range(4, 9))
    jobs += [('rule', (lo, min(nms, lo + 60))) for lo in range(0, nms, 60)]
    jobs.append(('presets', None))
    jobs.append(('seqdiff', None))
    jobs.append(('reuse', None))
    jobs.append(('long', None))
    jobs.append(('enrich', None))
    jobs.append(('formula_text', None))
    for st in pmap(_dispatch, jobs):
        ctx.stats.merge(st)
    ctx.extra['fw_column_length'] = maxlen
    ctx.extra['ambiguous_keep_rule'] = int(ctx.stats.n['ambiguous_keep_rule'])
    if ctx.stats.n['nontrivial'] < 1000:
        raise HarnessError('vacuous')


def eval_case(case):
    st = Stats()
    if case['kind'] == 'seqdiff':
        return seqdiff.replay(seq_call, SEQ_MENU, case['seq'])
    if case['kind'] == 'formula_text':
        return [v['what'] for v in _formula_text_job(None).violations if v['case']['preset'] == case['preset']]
    if case['kind'] == 'enrich_sets':
        from mc.checks.c11 import _enrich_sets
        return [v['what'] for v in _enrich_sets(None).violations]
    if case['kind'] == 'long':
        return [v['what'] for v in _long_job(None).violations if v['case']['preset'] == case['preset']]
    if case['kind'] == 'reuse':
        return [v['what'] for v in _reuse_job(None).violations]
    if case['kind'] == 'preset':
        from outrank.feature_transformations import feature_transformer_vault as vault
        from outrank.feature_transformations.ranking_transformers import FeatureTransformerGeneric
        st = _presets_job(None)
        return [v['what'] for v in st.violations]
    return [msg for sig, msg in judge_column(case['cells'], case['preset'], st)]
