"""C05 - each emitted score is the selected heuristic applied to the two columns (label on the conditioning side)."""
from __future__ import annotations

import glob
import itertools
import math
import os
import re
import warnings
from collections import Counter

import numpy as np

from mc import enum, harness, refs, seqdiff
from mc.common import HarnessError, Stats, pmap, safe, shards

PROPERTY = 'C05'
LEVEL = 'exploration'
RULE = ('mixed_rank_graph (in-process pool) on every string frame with 2 feature columns + label, n<=3 (quick) / n<=4 (thorough) rows, every '
        'combination of per-column partitions (RGS(n)^3) instantiated with two value maps over {"", 0, 10, 9, ü, "a b"} (sorted-order coding differs from '
        'numeric order), label first/middle/last, heuristics {MI, MI-numba-randomized, MI-numba-3mr, max-value-coverage, AMI, correlation-Pearson, Constant} '
        'x target-only/pairwise; every emitted triplet compared with an independent reference on my own coding; one 900-row frame with 300 / 140 categories (int16 codes); one 40 000-row frame with an identifier column (> 2^15 categories); column-name sets in which names contain the label name or each other; a directed max-value-coverage family '
        '(hash-slot collisions, int8/int16 code dtypes, a 26x26 grid of code magnitudes around powers of ten and two); every documented non-surrogate heuristic name must not degrade to a constant; sequence differential: every sequence of <= 3 batches from a 5-frame menu (same column names, unseen values, other row counts) in one process state vs a pristine state. '
        'distinct_nontrivial = (frame, heuristic, mode) cases whose reference scores take >= 2 distinct values')
ASSUMPTIONS = ['scikit-learn adjusted_mutual_info_score and numpy.corrcoef are trusted as references for AMI / Pearson',
               'for feature-feature pairs either conditioning orientation is accepted (the statement fixes only the label side)',
               'tolerance 2e-5 absolute + 2e-5 relative; NaN compared as NaN (Pearson on a constant column)']

HEURISTICS = ['MI', 'MI-numba-randomized', 'MI-numba-3mr', 'max-value-coverage', 'AMI', 'correlation-Pearson', 'Constant']
MAPS = [('m1', ['', '0', '10', '9']), ('m2', ['ü', 'a b', '9', '10']), ('m3', ['7', '007', '7.0', '+7'])]   # m3: four spellings of one number are four different categories
ATOL = 2e-5


def coded(col):
    vals = sorted(set(col))
    ix = {v: i for i, v in enumerate(vals)}
    return [ix[v] for v in col]


def ref_score(heuristic, feat, cond):
    """reference for vector_first=feat, vector_second=cond (already coded lists)"""
    if heuristic in ('MI', 'MI-numba-3mr'):
        return refs.plugin_mi(feat, cond)
    if heuristic == 'MI-numba-randomized':
        return refs.corrected_mi(feat, cond)
    if heuristic == 'max-value-coverage':
        return max(Counter(zip(feat, cond)).values()) / len(feat)
    if heuristic == 'AMI':
        from sklearn.metrics import adjusted_mutual_info_score
        return float(adjusted_mutual_info_score(feat, cond))
    if heuristic == 'correlation-Pearson':
        if len(set(feat)) < 2 or len(set(cond)) < 2:
            return math.nan
        with warnings.catch_warnings():
            warnings.simplefilter('ignore')
            return float(np.corrcoef(np.array(feat, dtype=float), np.array(cond, dtype=float))[0, 1])
    if heuristic == 'Constant':
        return 0.0
    raise HarnessError(heuristic)


def near(a, b):
    if math.isnan(a) or math.isnan(b):
        return math.isnan(a) and math.isnan(b)
    return abs(a - b) <= ATOL + ATOL * abs(b)


def run_graph(columns, data, heuristic, pairwise, label='label'):
    import pandas as pd
    from outrank import core_ranking as cr
    harness.reset_state()
    df = pd.DataFrame({c: list(v) for c, v in zip(columns, data)})
    args = harness.make_args(heuristic=heuristic, target_ranking_only='False' if pairwise else 'True', label_column=label)
    with warnings.catch_warnings():
        warnings.simplefilter('ignore')
        res = cr.mixed_rank_graph(df, args, harness.InlinePool(), harness.NullBar())
    return res.triplet_scores


def judge(columns, data, heuristic, pairwise, label='label'):
    """returns (failures [(sig,msg)], set of reference score values)"""
    ok, trip = safe(run_graph, columns, data, heuristic, pairwise, label)
    if not ok:
        return [({'kind': 'exception', 'heuristic': heuristic}, f'{heuristic}: mixed_rank_graph raised {trip}')], set()
    cod = {c: coded(v) for c, v in zip(columns, data)}
    fails, refvals = [], set()
    if not trip:
        return [({'kind': 'empty', 'heuristic': heuristic}, f'{heuristic}: no triplets emitted')], set()
    for a, b, s in trip:
        if a not in cod or b not in cod:
            fails.append(({'kind': 'unknown_column', 'heuristic': heuristic}, f'triplet mentions unknown column {(a, b)}'))
            continue
        try:
            s = float(s)
        except Exception:
            fails.append(({'kind': 'type', 'heuristic': heuristic}, f'score {s!r} is not a number'))
            continue
        if a == label or b == label:
            feat = b if a == label else a
            cands = [ref_score(heuristic, cod[feat], cod[label])]
        else:
            cands = [ref_score(heuristic, cod[a], cod[b]), ref_score(heuristic, cod[b], cod[a])]
        for c in cands:
            refvals.add('nan' if math.isnan(c) else round(c, 6))
        if not any(near(s, c) for c in cands):
            fails.append(({'kind': 'score', 'heuristic': heuristic}, f'{heuristic} ({"pairwise" if pairwise else "target-only"}): ({a},{b}) scored {s!r}, reference {cands!r}'))
            break
    return fails, refvals


def _frames(job):
    n, lo, hi = job
    st = Stats()
    A = enum.rgs_list(n)
    idx = -1
    for c1, c2, c3 in itertools.product(A, repeat=3):
        idx += 1
        if not (lo <= idx < hi):
            continue
        for mname, vmap in MAPS:
            cols_data = [[vmap[c] for c in c1], [vmap[c] for c in c2], [vmap[c] for c in c3]]   # f1, f2, label
            for lpos in (0, 1, 2):
                names = ['f1', 'f2']
                names.insert(lpos, 'label')
                data = [cols_data[0], cols_data[1]]
                data.insert(lpos, cols_data[2])
                for heuristic in HEURISTICS:
                    if heuristic == 'correlation-Pearson' and n < 2:
                        continue
                    for pairwise in (False, True):
                        fails, refvals = judge(names, data, heuristic, pairwise)
                        st.count('evaluations')
                        if len(refvals) >= 2:
                            st.count('nontrivial')
                        for sig, msg in fails:
                            st.violation({'kind': 'frame', 'columns': names, 'data': data, 'heuristic': heuristic, 'pairwise': pairwise}, msg, sig)
        if idx == lo and lo == 0:
            st.sample({'kind': 'frame', 'columns': ['f1', 'label', 'f2'], 'data': [[MAPS[0][1][c] for c in A[-1]]] * 3, 'heuristic': 'MI', 'pairwise': True})
    return st


def coverage_cases():
    """directed max-value-coverage family: (name, array1, array2) as category-coded columns"""
    out = []
    n = 16384
    i = np.arange(n)
    # (0,0) and (17,12831) fall into the same slot of a 10^6-slot table keyed by el1*1471343 - el2
    a1 = (i % 32).astype(np.int64)
    a2 = (i % 13000).astype(np.int64)
    a1[:40] = 0
    a2[:40] = 0
    a1[40:75] = 17
    a2[40:75] = 12831
    out.append(('collision_int64', a1, a2))
    out.append(('collision_int16', a1.astype(np.int8), a2.astype(np.int16)))
    small1 = (i % 5).astype(np.int8)
    small2 = (i % 3).astype(np.int8)
    out.append(('int8_codes', small1, small2))
    out.append(('int16_codes', (i % 300).astype(np.int16), (i % 7).astype(np.int8)))
    i2 = np.arange(1200000)
    out.append(('long_1200000', (i2 % 1100).astype(np.int64), ((i2 * 7) % 1300).astype(np.int64)))
    # two-level grid: the four combinations of {0,K1} x {0,K2} with multiplicities 4,3,2,1 for code magnitudes around powers of ten and two
    # (any bounded table / modulus / narrow key arithmetic merges two of the four pairs for some K1,K2 of this grid)
    ks = [1, 9, 10, 99, 100, 999, 1000, 1001, 9999, 10 ** 4, 99999, 10 ** 5, 999999, 10 ** 6, 255, 256, 1023, 1024, 4095, 4096, 65535, 65536, 2 ** 20 - 1, 2 ** 20, 12831, 17]
    for k1 in ks:
        for k2 in ks:
            a1 = np.array([0] * 4 + [0] * 3 + [k1] * 2 + [k1], dtype=np.int64)
            a2 = np.array([0] * 4 + [k2] * 3 + [0] * 2 + [k2], dtype=np.int64)
            out.append((f'grid_{k1}_{k2}', a1, a2))
    return out


def _coverage(_):
    from outrank.algorithms.feature_ranking.ranking_cov_alignment import max_pair_coverage
    st = Stats()
    for name, a1, a2 in coverage_cases():
        exp = max(Counter(zip(a1.tolist(), a2.tolist())).values()) / len(a1)
        np.random.seed(len(name))
        ok, got = safe(max_pair_coverage, a1, a2)
        if ok and len(a1) > 10 ** 6:
            np.random.seed(7)
            ok2, got2 = safe(max_pair_coverage, a1, a2)
            if not ok2 or float(got2) != float(got):
                st.violation({'kind': 'coverage', 'name': name}, f'{name}: the result depends on the state of the global random generator ({got!r} vs {got2!r})', {'kind': 'coverage_random', 'name': name})
        st.count('evaluations')
        st.count('coverage_directed')
        st.count('nontrivial')
        if not ok:
            st.violation({'kind': 'coverage', 'name': name}, f'max_pair_coverage raised {got} on {a1.dtype}/{a2.dtype} codes', {'kind': 'coverage_exception', 'name': name})
        elif abs(float(got) - exp) > 1e-12:
            st.violation({'kind': 'coverage', 'name': name}, f'{name}: max_pair_coverage={float(got)!r}, exact largest joint-value frequency {exp!r}', {'kind': 'coverage_value', 'name': name})
    # through the pipeline: < 128 categories -> int8 codes
    vals = [str(x % 5) for x in range(40)]
    lab = [str(x % 2) for x in range(40)]
    fails, _ = judge(['f1', 'label'], [vals, lab], 'max-value-coverage', False)
    st.count('evaluations')
    for sig, msg in fails:
        st.violation({'kind': 'frame', 'columns': ['f1', 'label'], 'data': [vals, lab], 'heuristic': 'max-value-coverage', 'pairwise': False}, msg, sig)
    return st


def _midcard(_):
    """columns with 300 categories (int16 codes) and a 3-class label, 900 rows: every heuristic, both modes, against the references"""
    from mc.checks.c09 import lcg_stream
    st = Stats()
    g = lcg_stream(99)
    n = 900
    f1 = [f'v{next(g) % 300:03d}' for _ in range(n)]
    lab = [str((int(v[1:]) + next(g) % 2) % 3) for v in f1]
    f2 = [f'w{(int(v[1:]) * 7 + next(g) % 5) % 140}' for v in f1]
    for lpos in (0, 2):
        names = ['f1', 'f2']
        names.insert(lpos, 'label')
        data = [f1, f2]
        data.insert(lpos, lab)
        for heuristic in HEURISTICS:
            for pairwise in (False, True):
                fails, refvals = judge(names, data, heuristic, pairwise)
                st.count('evaluations')
                st.count('midcard_cases')
                if len(refvals) >= 2:
                    st.count('nontrivial')
                for sig, msg in fails:
                    st.violation({'kind': 'midcard', 'label_pos': lpos, 'heuristic': heuristic, 'pairwise': pairwise}, msg, dict(sig, midcard=True))
    return st


NAME_SETS = [
    (['click_count', 'xclick', 'click'], 'click'),        # feature names that contain / start with / end with the label's name
    (['day', 'city', 'y'], 'y'),
    (['user', 'user-type', 'type-id', 'id', 'label'], 'label'),   # names whose hyphen-joins coincide
    (['a AND b', 'a', 'b', 'label'], 'label'),
]


def _names(_):
    """column names that contain the label's name or each other: every heuristic, both modes, label first/last"""
    from mc.checks.c09 import lcg_stream
    st = Stats()
    for names, label in NAME_SETS:
        g = lcg_stream(len(names) * 7)
        n = 9
        cols = {}
        prev = [0] * n
        for j, c in enumerate(names):
            cols[c] = [str((prev[i] + next(g) % (2 + j % 2)) % (j + 2)) for i in range(n)]
            prev = [int(v) * 2 + 1 for v in cols[c]]
        for order in (names, list(reversed(names))):
            data = [cols[c] for c in order]
            for heuristic in HEURISTICS:
                for pairwise in (False, True):
                    fails, refvals = judge(order, data, heuristic, pairwise, label)
                    st.count('evaluations')
                    st.count('name_cases')
                    if len(refvals) >= 2:
                        st.count('nontrivial')
                    for sig, msg in fails:
                        st.violation({'kind': 'names', 'columns': order, 'data': data, 'label': label, 'heuristic': heuristic, 'pairwise': pairwise}, msg, dict(sig, names=True))
    return st


def _bigcard(_):
    """one 40 000-row batch with an identifier column (more than 2^15 categories) and a 300-category column: Pearson, coverage and the numba scores"""
    from mc.checks.c09 import lcg_stream
    st = Stats()
    g = lcg_stream(5)
    n = 40000
    ident = [f'id{(i * 7919) % 1000003:07d}' for i in range(n)]
    lab = [str((i // 3 + next(g) % 2) % 2) for i in range(n)]
    mid = [f'm{(int(lab[i]) * 3 + next(g) % 300)}' for i in range(n)]
    names = ['ident', 'mid', 'label']
    data = [ident, mid, lab]
    for heuristic in ('correlation-Pearson', 'max-value-coverage', 'MI-numba-3mr', 'MI-numba-randomized'):
        fails, refvals = judge(names, data, heuristic, False)
        st.count('evaluations')
        st.count('bigcard_cases')
        st.count('nontrivial')
        for sig, msg in fails:
            st.violation({'kind': 'bigcard', 'heuristic': heuristic}, msg[:400], dict(sig, bigcard=True))
    return st


def documented_names():
    names = set()
    root = '/repo'
    files = []
    for pat in ('scripts/*', 'examples/*', 'benchmarks/*', 'docs/DOCSMAIN.md', 'README.md', 'outrank/__main__.py'):
        files += glob.glob(os.path.join(root, pat))
    for f in files:
        if os.path.isdir(f):
            continue
        try:
            txt = open(f, encoding='utf-8', errors='ignore').read()
        except Exception:
            continue
        names |= set(re.findall(r'--heuristic[ =]+([A-Za-z0-9_-]+)', txt))
        names |= set(re.findall(r"HEURISTIC\s*=\s*'([A-Za-z0-9_-]+)'", txt))
    return sorted(n for n in names if 'surrogate' not in n)


def _documented(_):
    st = Stats()
    names = documented_names()
    st.notes.append(f'documented non-surrogate heuristic names: {names}')
    cols = ['f1', 'f2', 'label']
    data = [['a', 'a', 'b', 'b', 'c', 'c', 'a', 'b'], ['x', 'y', 'x', 'y', 'x', 'y', 'x', 'x'], ['1', '1', '0', '0', '1', '0', '1', '0']]
    for nm in names:
        ok, trip = safe(run_graph, cols, data, nm, True)
        st.count('evaluations')
        st.count('documented_names')
        if not ok:
            st.violation({'kind': 'documented', 'heuristic': nm}, f'{nm}: raised {trip}', {'kind': 'exception', 'heuristic': nm})
            continue
        scores = {round(float(s), 6) for _, _, s in trip}
        if len(scores) < 2:
            st.violation({'kind': 'documented', 'heuristic': nm}, f'documented heuristic {nm} degrades to the constant score {scores}', {'kind': 'degraded', 'heuristic': nm})
        if nm not in HEURISTICS:
            st.violation({'kind': 'documented', 'heuristic': nm}, f'documented heuristic {nm} has no reference in this check (extend HEURISTICS)', {'kind': 'unknown_documented', 'heuristic': nm})
    if len(names) < 2:
        raise HarnessError(f'documented heuristic scan found too few names: {names}')
    return st


SEQ_FRAMES = [
    [['a', 'b', 'a', 'b'], ['x', 'x', 'y', 'y'], ['0', '1', '0', '1']],
    [['c', 'd', 'e', 'c'], ['z', 'x', 'z', 'w'], ['1', '1', '0', '2']],          # values the first frame never contained
    [['a', 'b', 'a', 'b', 'c', 'c'], ['x', 'y', 'x', 'y', 'x', 'y'], ['0', '1', '1', '0', '0', '1']],   # other row count
    [['b', 'a', 'b', 'a'], ['y', 'y', 'x', 'x'], ['1', '0', '1', '0']],          # first frame, rows permuted
    [['1', '2', '3', '4'], ['', '', 'ü', 'ü'], ['0', '0', '1', '1']],
]


def seq_call(x):
    fi, heuristic, pairwise = x
    trip = run_graph_noreset(['f1', 'f2', 'label'], SEQ_FRAMES[fi], heuristic, pairwise)
    return sorted((a, b, round(float(s), 7) if not math.isnan(float(s)) else 'nan') for a, b, s in trip)


def run_graph_noreset(columns, data, heuristic, pairwise):
    import pandas as pd
    from outrank import core_ranking as cr
    df = pd.DataFrame({c: list(v) for c, v in zip(columns, data)})
    args = harness.make_args(heuristic=heuristic, target_ranking_only='False' if pairwise else 'True')
    with warnings.catch_warnings():
        warnings.simplefilter('ignore')
        res = cr.mixed_rank_graph(df, args, harness.InlinePool(), harness.NullBar())
    return res.triplet_scores


def _pools(_):
    """the same batches served by a 2- and 3-worker pool whose unordered API completes in another order: each row must still carry the score of ITS two columns"""
    import pandas as pd
    from mc import vpool
    from outrank import core_ranking as cr
    st = Stats()
    for fi, data in enumerate(SEQ_FRAMES):
        for heuristic in ('MI-numba-randomized', 'max-value-coverage', 'correlation-Pearson'):
            for pairwise in (False, True):
                for W, completion in ((2, 'lifo'), (3, 'rotate')):
                    harness.reset_state()
                    df = pd.DataFrame({c: list(v) for c, v in zip(['f1', 'f2', 'label'], data)})
                    args = harness.make_args(heuristic=heuristic, target_ranking_only='False' if pairwise else 'True')
                    pool = vpool.VirtualPool(W, tuple(i % W for i in range(32)), completion)
                    with warnings.catch_warnings():
                        warnings.simplefilter('ignore')
                        ok, res = safe(cr.mixed_rank_graph, df, args, pool, harness.NullBar())
                    st.count('evaluations')
                    st.count('pool_cases')
                    st.count('nontrivial')
                    case = {'kind': 'pools', 'frame': fi, 'heuristic': heuristic, 'pairwise': pairwise, 'W': W}
                    if not ok:
                        st.violation(case, f'mixed_rank_graph raised {res} with a {W}-worker pool', {'kind': 'exception', 'heuristic': heuristic})
                        continue
                    cod = {c: coded(v) for c, v in zip(['f1', 'f2', 'label'], data)}
                    for a, b, s_ in res.triplet_scores:
                        if a == 'label' or b == 'label':
                            cands = [ref_score(heuristic, cod[b if a == 'label' else a], cod['label'])]
                        else:
                            cands = [ref_score(heuristic, cod[a], cod[b]), ref_score(heuristic, cod[b], cod[a])]
                        if not any(near(float(s_), c) for c in cands):
                            st.violation(case, f'{W}-worker pool ({completion}): ({a},{b}) scored {float(s_)!r}, reference {cands!r}', {'kind': 'score_pool', 'heuristic': heuristic})
                            break
    return st


def seq_menu(job):
    heuristic, pairwise = job
    return [(fi, heuristic, pairwise) for fi in range(len(SEQ_FRAMES))]


def _seqdiff(job):
    st = Stats()
    menu = seq_menu(job)
    seqdiff.run(seq_call, menu, 3, st, lambda seq, pos: {'kind': 'seqdiff', 'job': list(job), 'seq': list(seq)}, {'kind': 'history_dependent', 'heuristic': job[0]})
    return st


def _dispatch(item):
    k, job = item
    return {'frames': _frames, 'coverage': _coverage, 'documented': _documented, 'seqdiff': _seqdiff, 'midcard': _midcard, 'names': _names, 'bigcard': _bigcard, 'pools': _pools}[k](job)


def run(ctx):
    jobs = []
    for n in ((1, 2, 3) if not ctx.thorough else (1, 2, 3, 4)):
        tot = enum.BELL[n] ** 3
        jobs += [('frames', (n, lo, hi)) for lo, hi in shards(tot, 96 if n == 4 else 16)]
    jobs += [('coverage', None), ('documented', None), ('midcard', None), ('names', None), ('bigcard', None), ('pools', None)]
    jobs += [('seqdiff', (h, pw)) for h in ('MI-numba-randomized', 'MI', 'max-value-coverage', 'AMI') for pw in (False, True)]
    for st in pmap(_dispatch, jobs):
        ctx.stats.merge(st)
    ctx.extra['max_rows'] = 4 if ctx.thorough else 3
    if ctx.stats.n['nontrivial'] < 500:
        raise HarnessError('vacuous')


def eval_case(case):
    k = case['kind']
    if k == 'seqdiff':
        return seqdiff.replay(seq_call, seq_menu(tuple(case['job'])), case['seq'])
    if k == 'pools':
        return [v['what'] for v in _pools(None).violations if v['case']['heuristic'] == case['heuristic']]
    if k == 'names':
        fails, _ = judge(case['columns'], case['data'], case['heuristic'], case['pairwise'], case['label'])
        return [m for _, m in fails]
    if k == 'bigcard':
        return [v['what'] for v in _bigcard(None).violations if v['case']['heuristic'] == case['heuristic']]
    if k == 'midcard':
        return [v['what'] for v in _midcard(None).violations if v['case']['heuristic'] == case['heuristic']]
    if k == 'frame':
        fails, _ = judge(case['columns'], case['data'], case['heuristic'], case['pairwise'])
        return [m for _, m in fails]
    if k == 'coverage':
        from outrank.algorithms.feature_ranking.ranking_cov_alignment import max_pair_coverage
        for name, a1, a2 in coverage_cases():
            if name == case['name']:
                exp = max(Counter(zip(a1.tolist(), a2.tolist())).values()) / len(a1)
                ok, got = safe(max_pair_coverage, a1, a2)
                if not ok:
                    return [f'raised {got}']
                return [] if abs(float(got) - exp) <= 1e-12 else [f'{float(got)!r} vs exact {exp!r}']
    if k == 'documented':
        st = _documented(None)
        return [v['what'] for v in st.violations if v['case'].get('heuristic') == case['heuristic']]
    return []
