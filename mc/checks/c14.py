"""C14 - cardinality sketch: exact while warm, within 2% beyond, duplicate-blind."""
from __future__ import annotations

import copy

import numpy as np

from mc import explore
from mc.common import HarnessError, Stats, pmap, safe

PROPERTY = 'C14'
LEVEL = 'model_checking'
RULE = ('(i) BFS over real HyperLogLogWCache instances scaled down by assignment of their instance attributes (p=3,m=8,warm-up=4 and '
        'p=4,m=16,warm-up=8): event = add(v), v from warm-up+3 distinct strings, all insertion sequences to depth warm-up+4; state = '
        '(warm-up set, flag, registers) + reference set; (ii) the unmodified class on declared long insertion streams crossing 2^18 '
        '(thorough: up to 2^21 distinct) with len() checked after every insertion around the switch and at checkpoints; (iii) the sketches as the pipeline feeds them (compute_cardinalities over 5 batches in 3 orders, histogram bounds 1..30000). '
        '(iv) two scaled sketches alive in one process (p=2/warm-up 2, p=3/warm-up 3; thorough also p=4/warm-up 4): BFS over all interleavings of insertions into either, both able to leave the warm-up; each obeys (i), an insertion into one never changes the other, and a sketch\'s state is a function of its own insertion history. '
        'non-trivial = distinct states with at least two distinct values inserted')
ASSUMPTIONS = ['the estimate clause (2%) is judged only on the real-size streams, not at m=8/16',
               'scaled instances differ from production ones only in the four attributes p, m, warmup_size, width']


def make_sketch(p, warm):
    from outrank.algorithms.sketches.counting_ultiloglog import HyperLogLogWCache
    h = HyperLogLogWCache(0.02)
    if p is not None:
        h.p = p
        h.m = 1 << p
        h.warmup_size = warm
        h.width = 64 - p
    return h


def sk_state(h):
    regs = tuple(np.asarray(h.M).tolist()) if getattr(h, 'hll_flag', False) and hasattr(h, 'M') else None
    ws = frozenset(h.warmup_set) if isinstance(h.warmup_set, (set, frozenset)) else frozenset(dict(h.warmup_set))
    return (ws, bool(h.hll_flag), regs)


class World:
    def __init__(self, p, warm, order_seen):
        self.p, self.warm = p, warm
        self.h = make_sketch(p, warm)
        self.ref = set()
        self.first_order = []
        self.alpha = [f'v{i}' for i in range(warm + 2)] + ['']      # the empty string is a value like any other
        self.order_seen = order_seen

    def enabled(self):
        return list(self.alpha)

    def canon(self):
        return (sk_state(self.h), frozenset(self.ref))

    def apply_any(self, v):
        return self.apply(v)

    def apply(self, v):
        fails = []
        before = sk_state(self.h)
        ok, n_before = safe(len, self.h)
        dup = v in self.ref
        ok2, r = safe(self.h.add, v)
        if not ok2:
            return [f'add raised {r}']
        if v not in self.ref:
            self.first_order.append(v)
        self.ref.add(v)
        ok3, n_after = safe(len, self.h)
        if not ok3:
            return [f'len raised {n_after}']
        after = sk_state(self.h)
        if dup and after != before:
            fails.append(f're-adding {v!r} changed the sketch state (len {n_before} -> {n_after}) with {len(self.ref)} distinct values inserted')
        elif dup and ok and n_after != n_before:
            fails.append(f're-adding {v!r} changed len {n_before} -> {n_after}')
        if len(self.ref) <= self.warm and n_after != len(self.ref):
            fails.append(f'len={n_after} but exactly {len(self.ref)} distinct values (<= warm-up {self.warm}) were inserted')
        # in the exact range the state is a function of the SET of inserted values; beyond it the statement allows the order to matter, so
        # there the key is the sequence of first insertions: the same own history must give the same state in every sketch object of this
        # process, whatever other sketches did before (duplicates are no-ops by the rule above)
        key = frozenset(self.ref) if len(self.ref) <= self.warm else tuple(self.first_order)
        prev = self.order_seen.setdefault(key, after)
        if prev != after:
            fails.append('state in the exact range depends on the insertion order' if len(self.ref) <= self.warm else
                         f'state after inserting {len(self.ref)} distinct values (> warm-up {self.warm}) differs from the state an earlier sketch of this process reached with the same sequence of first insertions: it depends on other sketch objects')
        return fails


class PairWorld:
    """two sketches alive in one process (the pipeline keeps one per column), every interleaving of insertions into either: each sketch
    obeys the single-sketch rules and an insertion into one never changes the other (state and len)"""

    def __init__(self, p, warm, order_seen):
        self.w = {'A': World(p, warm, order_seen[0]), 'B': World(p, warm, order_seen[1])}
        vals = [f'v{i}' for i in range(warm + 1)]
        self.alpha = [f'A:{v}' for v in vals] + [f'B:{v}' for v in vals[:1]] + [f'B:u{i}' for i in range(warm)]    # B shares one value with A

    def enabled(self):
        return list(self.alpha)

    def canon(self):
        return (self.w['A'].canon(), self.w['B'].canon())

    def apply(self, ev):
        side, v = ev.split(':', 1)
        other = self.w['B' if side == 'A' else 'A']
        before = sk_state(other.h)
        okb, nb = safe(len, other.h)
        fails = [f'sketch {side}: {f}' for f in self.w[side].apply_any(v)]
        after = sk_state(other.h)
        oka, na = safe(len, other.h)
        if after != before or (okb and oka and na != nb):
            fails.append(f'adding {v!r} to sketch {side} changed the OTHER sketch (len {nb} -> {na}, {len(other.ref)} distinct values inserted there)')
        return fails


def sig_pair(hist, ev, fails):
    return {'family': 'pair', 'kind': 'other_sketch_changed' if any('OTHER' in f for f in fails) else sig_of(hist, ev, fails)['kind']}


def _pair(job):
    p, warm, depth = job
    st = Stats()
    order_seen = ({}, {})
    closed, n_states, reached = explore.bfs(lambda: PairWorld(p, warm, order_seen), max_depth=depth, stats=st, sig_of=sig_pair, sample_every=5000)
    st.count('pair_states', n_states)
    st.count('nontrivial', max(0, n_states - 1))
    st.notes.append(f'pair p={p} warm={warm}: states={n_states} depth_bound={depth} reached={reached} closed={closed}')
    if n_states < 50 and not st.violations:      # a search cut short by violations is not vacuous
        raise HarnessError('vacuous pair family')
    return st


def sig_of(hist, ev, fails):
    f = fails[0]
    kind = 'dup_changes_state' if 're-adding' in f else ('not_exact' if 'distinct values' in f else 'other')
    return {'family': 'scaled', 'kind': kind}


def _scaled(job):
    p, warm, depth = job
    st = Stats()
    order_seen = {}
    closed, n_states, reached = explore.bfs(lambda: World(p, warm, order_seen), max_depth=depth, stats=st, sig_of=sig_of, sample_every=2000)
    st.count('nontrivial', max(0, n_states - 1 - (warm + 3)))
    st.notes.append(f'scaled p={p} warm={warm}: states={n_states} depth_bound={depth} reached={reached}')
    st.sample({'p': p, 'warmup': warm, 'history': [f'v{i}' for i in range(warm + 1)] + ['v0']})
    return st


# ---------------- real-size streams -----------------------------------------------------------------

def stream_values(kind, i):
    if kind == 'dec_asc':
        return str(i)
    if kind == 'dec_desc':
        return str(10 ** 7 - i)
    if kind == 'hexhash':
        from outrank.core_utils import internal_hash
        return internal_hash(str(i))
    if kind == 'padded8':
        return '%08d' % i        # fixed-width decimal ids: they look like 8-digit hex strings but are not uniformly distributed
    if kind == 'lcg':
        return '%016x' % ((6364136223846793005 * (i + 1) + 1442695040888963407) % (1 << 64))
    raise HarnessError(kind)


WARM = 2 ** 18


def _real_stream(job):
    kind, dup_every, n_distinct, hold = job
    st = Stats()
    h = make_sketch(None, None)
    if h.warmup_size != WARM:
        st.notes.append(f'warm-up capacity of the class is {h.warmup_size}, statement says 2^18')
    distinct = 0
    step = 0
    fails = 0
    checkpoints = set(int(x) for x in np.linspace(WARM + 17, n_distinct, 2048 if n_distinct > WARM * 2 else 64))
    case = {'stream': kind, 'dup_every': dup_every, 'n_distinct': n_distinct, 'hold': hold}

    def check(after_dup, prev_len):
        nonlocal fails
        n = len(h)
        st.count('len_checks')
        if distinct <= WARM and n != distinct:
            st.violation(dict(case, at_distinct=distinct, dup=after_dup), f'{kind}: len={n} with {distinct} distinct values (<= 2^18) inserted', {'family': 'real', 'kind': 'not_exact'})
            fails += 1
        elif distinct > WARM and abs(n - distinct) > 0.02 * distinct:
            st.violation(dict(case, at_distinct=distinct), f'{kind}: len={n} vs {distinct} distinct: relative error {abs(n - distinct) / distinct:.4f} > 2%', {'family': 'real', 'kind': 'error_bound'})
            fails += 1
        if after_dup and prev_len is not None and n != prev_len:
            st.violation(dict(case, at_distinct=distinct, dup=True), f'{kind}: duplicate changed len {prev_len} -> {n} at {distinct} distinct', {'family': 'real', 'kind': 'dup_changes_len'})
            fails += 1
        return n

    i = 0
    while distinct < n_distinct and fails < 5:
        v = stream_values(kind, i)
        h.add(v)
        i += 1
        distinct += 1
        st.count('transitions')
        near = abs(distinct - WARM) <= 16
        if near or distinct in checkpoints or distinct < 4:
            n = check(False, None)
            # duplicate of an old value and of the newest one must not change anything
            if near or distinct in checkpoints:
                for old in (stream_values(kind, 0), v):
                    h.add(old)
                    st.count('transitions')
                    n = check(True, n)
        elif dup_every and distinct % dup_every == 0:
            h.add(stream_values(kind, distinct // 2))
            st.count('transitions')
        if hold and distinct == WARM:
            n0 = len(h)
            for k in range(64):
                h.add(stream_values(kind, (k * 7919) % WARM))
                st.count('transitions')
                n0 = check(True, n0)
    st.count('stream_prefixes', distinct)
    st.count('traces_validated')
    st.count('evaluations')
    st.count('real_streams')
    return st


def _pipeline(_):
    """the sketch as the pipeline feeds it: compute_cardinalities over successive batches, for histogram bounds below and above the number of distinct values"""
    import pandas as pd
    from mc import harness
    from outrank import core_ranking as cr
    st = Stats()
    batches = [['a', 'b', 'a', ''], ['c', 'a', 'd', 'e'], ['f', 'f', 'g', ''], ['a', 'h', 'i', 'j'], ['k', 'b', 'l', 'm']]
    for bound in (1, 2, 3, 5, 30000):
        for order in (list(range(5)), [4, 3, 2, 1, 0], [2, 0, 4, 1, 3]):
            harness.reset_state()
            seen = set()
            for step, bi in enumerate(order):
                df = pd.DataFrame({'c': batches[bi], 'd': [v.upper() for v in batches[bi]]})
                ok, r = safe(cr.compute_cardinalities, df, harness.NullBar(), bound)
                st.count('evaluations')
                st.count('transitions')
                st.count('traces_validated')
                st.count('pipeline_batches')
                case = {'kind': 'pipeline', 'bound': bound, 'order': order}
                if not ok:
                    st.violation(case, f'compute_cardinalities raised {r}', {'family': 'pipeline', 'kind': 'exception'})
                    break
                seen |= {v for v in batches[bi] if v}
                got = {k: len(v) for k, v in cr.GLOBAL_CARDINALITY_STORAGE.items()}
                if got != {'c': len(seen), 'd': len(seen)}:
                    st.violation(case, f'after batch {step + 1} (histogram bound {bound}): sketch sizes {got}, exact distinct non-empty values {len(seen)}', {'family': 'pipeline', 'kind': 'not_exact'})
                    break
    harness.reset_state()
    st.count('states', 15)
    return st


def run(ctx):
    jobs = [(3, 4, 8), (4, 8, 10 if not ctx.thorough else 11), (2, 2, 6), (3, 4, 9)] if not ctx.thorough else [(3, 4, 9), (4, 8, 12), (2, 2, 7), (3, 2, 8)]
    n_real = WARM + 2 ** 14 if not ctx.thorough else 2 ** 21
    rjobs = [('dec_asc', 0, n_real, True), ('hexhash', 4, n_real, False)]
    if not ctx.thorough:
        rjobs.append(('lcg', 0, 2 ** 21, False))
    rjobs.append(('padded8', 0, WARM + 2 ** 16 if not ctx.thorough else 2 ** 21, False))    # one stream to the end of the stated range in the quick tier as well
    if ctx.thorough:
        rjobs += [('dec_desc', 0, n_real, False), ('lcg', 0, n_real, False), ('dec_asc', 4, n_real, False), ('lcg', 4, n_real, True)]
    pjobs = [(2, 2, 7), (3, 3, 9)] if not ctx.thorough else [(2, 2, 8), (3, 3, 9), (4, 4, 11)]   # both sketches can leave the warm-up within the depth bound
    res = pmap(_dispatch, [('s', j) for j in jobs] + [('r', j) for j in rjobs] + [('p', None)] + [('pair', j) for j in pjobs])
    for st in res:
        ctx.stats.merge(st)
    ctx.exhaustive = True
    ctx.extra['bounds'] = {'scaled': [{'p': p, 'warmup': w, 'depth': d} for p, w, d in jobs], 'real_streams': [list(j) for j in rjobs], 'pairs_of_sketches': [{'p': p, 'warmup': w, 'depth': d} for p, w, d in pjobs]}
    if ctx.stats.n['states'] < 100:
        raise HarnessError('vacuous')


def _dispatch(item):
    kind, job = item
    if kind == 'p':
        return _pipeline(job)
    if kind == 'pair':
        return _pair(job)
    return _scaled(job) if kind == 's' else _real_stream(job)


def eval_case(case):
    if case.get('kind') == 'pipeline':
        return [v['what'] for v in _pipeline(None).violations if v['case']['bound'] == case['bound']]
    if 'stream' in case:
        st = _real_stream((case['stream'], case['dup_every'], min(case['n_distinct'], case.get('at_distinct', WARM) + 64), case['hold']))
        return [v['what'] for v in st.violations]
    hist = case['history']
    out = []
    if hist and all(ev[:2] in ('A:', 'B:') for ev in hist):
        for p, warm in [(2, 2), (3, 3), (4, 4)]:
            seen = ({}, {})
            w = PairWorld(p, warm, seen)
            if any(ev not in w.alpha for ev in hist):
                continue
            # prelude: what the search had done in this process before - a pair that reached the same value sets in another order, and a pair that used every value
            for pre in (list(dict.fromkeys(hist)), list(w.alpha)):
                w0 = PairWorld(p, warm, seen)
                for ev in pre:
                    w0.apply(ev)
            fails = []
            for ev in hist:
                fails = w.apply(ev)
            out += [f'pair p={p} warm-up={warm}: {f}' for f in fails]
        return out
    configs = [(case['p'], case['warmup'])] if 'p' in case else [(3, 4), (4, 8), (2, 2), (3, 2)]
    for p, warm in configs:
        seen = {}
        w = World(p, warm, seen)
        if any(ev not in w.alpha for ev in hist):
            continue
        # prelude: what the search had done in this process before - a sketch that reached the same value set in another order, and one that used every value
        for pre in (list(dict.fromkeys(hist)), list(w.alpha)):
            w0 = World(p, warm, seen)
            for ev in pre:
                w0.apply(ev)
        fails = []
        for ev in hist:
            fails = w.apply(ev)
        if fails:
            out += [f'p={p} warm-up={warm}: {f}' for f in fails]
    return out
