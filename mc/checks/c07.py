"""C07 - capped combination sampling is fair over any sequence of batches.

Explicit-state model checking of the real `prior_combinations_sample` + its process-global counter against a tally.
"""
from __future__ import annotations

import itertools
from collections import Counter
from types import SimpleNamespace

from mc import explore
from mc.common import HarnessError, Stats, pmap, safe

PROPERTY = 'C07'
LEVEL = 'model_checking'
RULE = ('BFS over the real prior_combinations_sample/GLOBAL_PRIOR_COMB_COUNTS; state = counter (shifted by its minimum for '
        'stable lists, raw otherwise) + reference tally; event = one batch (candidate list, cap). (a) stable duplicate-free '
        'lists of m candidates, every cap in 1..m+1, to closure; (b) every non-empty sub-list of 4 candidates x caps {1,2,5} '
        'to a depth bound; (b2) lists with duplicated candidates; (c) end-to-end batches through compute_batch_ranking, and the complete ranking task on files with a trailing partial batch (exported and returned counts). '
        'non-trivial = distinct states in which at least two candidates have different counts')
ASSUMPTIONS = ['the sampler consults the counter only through a sort key, so shifting all counts by the minimum preserves every future (used for canonicalisation in family (a) only; the shifted raw dictionary is part of the hash)']


def _cr():
    from outrank import core_ranking
    return core_ranking


class StableWorld:
    """family (a): one fixed duplicate-free candidate list, the cap varies per batch"""

    def __init__(self, m):
        self.cr = _cr()
        self.cr.GLOBAL_PRIOR_COMB_COUNTS.clear()
        # both orientations and names on both sides of 'label' in lexicographic order (keys must be used verbatim)
        self.cands = [((f'f{i}', 'label') if i % 2 == 0 else ('label', f'z{i}')) if i % 3 else (f'z{i}', f'f{i}') for i in range(m)]
        self.m = m
        self.tally = Counter()
        self.nontrivial = False

    def enabled(self):
        return list(range(1, self.m + 2))

    def apply(self, cap):
        return step(self.cr, self.cands, cap, self.tally, fairness=True)

    def canon(self):
        g = self.cr.GLOBAL_PRIOR_COMB_COUNTS
        vals = [g.get(c, None) for c in self.cands]
        present = [v for v in vals if v is not None]
        mn = min(present) if present else 0
        extra = tuple(sorted((repr(k), v) for k, v in g.items() if k not in set(self.cands)))
        return (tuple(None if v is None else v - mn for v in vals), extra,
                tuple(self.tally[c] - mn for c in self.cands))


def step(cr, cands, cap, tally, fairness):
    """one real call + reference step + invariants; returns failure strings"""
    fails = []
    g = cr.GLOBAL_PRIOR_COMB_COUNTS
    before = dict(g)
    args = SimpleNamespace(combination_number_upper_bound=cap)
    passed = list(cands)
    ok, ret = safe(cr.prior_combinations_sample, passed, args)
    if not ok:
        return [f'exception {ret}']
    ret = list(ret)
    if passed != list(cands):
        fails.append(f'the candidate list passed in was modified in place: {passed} (was {list(cands)})')
    if args.combination_number_upper_bound != cap:
        fails.append(f'the cap in the shared arguments was rewritten: {args.combination_number_upper_bound} (was {cap})')
    want = min(cap, len(cands))
    dupfree = len(set(cands)) == len(cands)
    if len(ret) != want:
        fails.append(f'returned {len(ret)} combinations, expected min(cap,len)={want}')
    if any(r not in cands for r in ret):
        fails.append(f'returned combination not among candidates: {[r for r in ret if r not in cands]}')
    if dupfree and len(set(ret)) != len(ret):
        fails.append(f'returned list has repeated combinations: {ret}')
    if not dupfree:
        # multiset inclusion
        cc, rc = Counter(cands), Counter(ret)
        if any(rc[k] > cc[k] for k in rc):
            fails.append('returned more copies of a candidate than listed')
    # least-evaluated-first
    prior = lambda c: before.get(c, 0)
    rest = list((Counter(cands) - Counter(ret)).elements())
    if ret and rest and max(prior(c) for c in ret) > min(prior(c) for c in rest):
        fails.append(f'not least-evaluated-first: returned {ret} with prior counts {[prior(c) for c in ret]}, '
                     f'left out {rest} with {[prior(c) for c in rest]}')
    for r in ret:
        tally[r] += 1
    keys = set(g) | set(tally)
    bad = {repr(k): (g.get(k, 0), tally.get(k, 0)) for k in keys if g.get(k, 0) != tally.get(k, 0)}
    if bad:
        fails.append(f'counter != number of selections: {bad}')
    if fairness:
        vals = [g.get(c, 0) for c in cands]
        if max(vals) - min(vals) > 1:
            fails.append(f'evaluation counts differ by more than one: {vals}')
    return fails


BASE4 = [('a AND b', 'c'), ('a', 'b AND c'), ('z', 'label'), ('user', 'item')]   # the first two differ only in where the separator of derived names falls
SUBLISTS = [tuple(BASE4[i] for i in range(4) if mask >> i & 1) for mask in range(1, 16)]
DUPLISTS = [
    (('a', 'a'), ('a', 'b'), ('b', 'b'), ('a', 'a'), ('b', 'b')),   # the pairwise-mode shape: diagonal listed twice
    (('a', 'a'), ('a', 'a')),
    (('a', 'b'), ('a', 'a'), ('a', 'b')),
]


class ChangingWorld:
    """family (b)/(b2): the candidate list changes between batches; raw counter is the state"""

    def __init__(self, menu, caps):
        self.cr = _cr()
        self.cr.GLOBAL_PRIOR_COMB_COUNTS.clear()
        self.menu = menu
        self.caps = caps
        self.tally = Counter()

    def enabled(self):
        return [[i, cap] for i in range(len(self.menu)) for cap in self.caps]

    def apply(self, ev):
        i, cap = ev
        return step(self.cr, list(self.menu[i]), cap, self.tally, fairness=False)

    def canon(self):
        g = self.cr.GLOBAL_PRIOR_COMB_COUNTS
        return tuple(sorted((repr(k), v) for k, v in g.items()))


def _job(job):
    st = Stats()
    kind = job[0]
    if kind == 'stable':
        m = job[1]
        mk = lambda: StableWorld(m)
        closed, n_states, depth = explore.bfs(mk, max_depth=4 * m + 8, stats=st,
                                              sig_of=lambda h, ev, f: {'family': 'stable', 'fail': f[0][:40]})
        st.count('nontrivial', max(0, n_states - 1))
        st.notes.append(f'stable m={m}: states={n_states} closed={closed} depth={depth}')
        if not closed and not st.violations:
            st.count('not_closed')
        st.sample({'family': 'stable', 'm': m, 'caps': list(range(1, m + 2)), 'states': n_states})
    elif kind == 'changing':
        depth_bound = job[1]
        mk = lambda: ChangingWorld(SUBLISTS, (1, 2, 5))
        closed, n_states, depth = explore.bfs(mk, max_depth=depth_bound, stats=st, sample_every=500,
                                              sig_of=lambda h, ev, f: {'family': 'changing', 'fail': f[0][:40]})
        st.count('nontrivial', max(0, n_states - 1))
        st.count('depth_bounded_families')
        st.notes.append(f'changing lists: states={n_states} depth_bound={depth_bound} depth_reached={depth}')
    elif kind == 'dups':
        depth_bound = job[1]
        mk = lambda: ChangingWorld(DUPLISTS, (1, 2, 3, 9))
        closed, n_states, depth = explore.bfs(mk, max_depth=depth_bound, stats=st,
                                              sig_of=lambda h, ev, f: {'family': 'dups', 'fail': f[0][:40]})
        st.count('nontrivial', max(0, n_states - 1))
        st.count('depth_bounded_families')
        st.notes.append(f'duplicated candidates: states={n_states} depth_bound={depth_bound}')
    elif kind == 'e2e':
        _e2e(st, job[1])
        _e2e_growing(st)
        _e2e_prior(st)
        _big_list(st)
        _two_files(st)
    elif kind == 'e2e_task':
        return _e2e_task(job[1])
    return st


def _e2e(st, n_batches):
    """(c) integration: real compute_batch_ranking for several batches with a binding cap, target-only mode; the counter (keyed by the
    candidate tuples exactly as the pair enumerator produced them) must equal the number of batches in which each pair occurs in that
    batch's triplets, with no other keys."""
    import pandas as pd
    from mc import harness
    cr = _cr()
    layouts = [(['f0', 'z1', 'label'], 1), (['z0', 'label', 'f1'], 2), (['z0', 'label', 'f1', 'm2'], 3), (['user', 'item', 'label', 'a'], 9)]
    for cols, cap in layouts:
        harness.reset_state()
        args = harness.make_args(combination_number_upper_bound=cap, heuristic='MI-numba-randomized', target_ranking_only='True')
        cands = cr.get_combinations_from_columns(pd.Index(cols), args)
        tally = Counter()
        fails = []
        for b in range(n_batches):
            rows = [[str((r * (i + 2) + b) % 3) if c != 'label' else str(r % 2) for i, c in enumerate(cols)] for r in range(6)]
            ok, res = safe(cr.compute_batch_ranking, rows, set(), args, harness.InlinePool(), list(cols), harness.RecLogger(), harness.NullBar())
            st.count('evaluations')
            st.count('transitions')
            st.count('traces_validated')
            if not ok:
                fails.append(f'exception {res}')
                break
            trip = res[0].triplet_scores
            pairs = {frozenset((a, bb)) for a, bb, _ in trip}
            if len(pairs) != min(cap, len(cands)):
                fails.append(f'batch {b}: {len(pairs)} distinct pairs evaluated, cap={cap}, candidates={len(cands)}')
            for c in cands:
                if frozenset(c) in pairs:
                    tally[c] += 1
            g = dict(cr.GLOBAL_PRIOR_COMB_COUNTS)
            if any(g.get(k, 0) != tally.get(k, 0) for k in set(g) | set(tally)):
                fails.append(f'batch {b}: reported counts {g} != batches in which each candidate was evaluated {dict(tally)}')
                break
            vals = [g.get(c, 0) for c in cands]
            if max(vals) - min(vals) > 1:
                fails.append(f'batch {b}: unfair counts {g}')
        st.count('states', n_batches)
        if fails:
            st.violation({'kind': 'e2e', 'columns': cols, 'cap': cap, 'batches': n_batches}, '; '.join(fails),
                         {'family': 'e2e', 'fail': fails[0][:40]})
    harness.reset_state()


def _e2e_growing(st):
    """(c3) the candidate list grows between batches (a multi-value feature shows new tokens) while the cap stays fixed; also the Constant heuristic:
    every batch must evaluate exactly min(cap, #candidates of THAT batch) pairs and the counter must follow"""
    from mc import harness
    cr = _cr()
    batches = [
        [['x', '0'], ['x', '1'], ['x', '0'], ['', '1']],
        [['x,y', '0'], ['y,z', '1'], ['z', '0'], ['x', '1']],
        [['x', '1'], ['x', '0'], ['', '0'], ['x', '1']],
        [['w,x,y,z', '0'], ['w', '1'], ['y', '0'], ['z', '1']],
    ]
    for heuristic in ('MI-numba-randomized', 'Constant'):
        for cap in (2, 3, 4, 6):
            harness.reset_state()
            args = harness.make_args(combination_number_upper_bound=cap, heuristic=heuristic, target_ranking_only='True', explode_multivalue_features='m')
            seen_cols = []
            orig = cr.mixed_rank_graph

            def rec(df, *a, **k):
                seen_cols.append(list(df.columns))
                return orig(df, *a, **k)

            cr.mixed_rank_graph = rec
            tally = Counter()
            fails = []
            try:
                for b, rows in enumerate(batches):
                    ok, res = safe(cr.compute_batch_ranking, [list(r) for r in rows], set(), args, harness.InlinePool(), ['m', 'label'], harness.RecLogger(), harness.NullBar())
                    st.count('evaluations')
                    st.count('transitions')
                    st.count('traces_validated')
                    if not ok:
                        fails.append(f'batch {b}: exception {res}')
                        break
                    n_cand = len(seen_cols[-1])
                    pairs = {frozenset((a, bb)) for a, bb, _ in res[0].triplet_scores}
                    if len(pairs) != min(cap, n_cand):
                        fails.append(f'batch {b}: {len(pairs)} pairs evaluated with cap {cap} and {n_cand} candidates (columns {seen_cols[-1]})')
                        break
                    for p_ in pairs:
                        tally[p_] += 1
                    g = Counter()
                    for k_, v_ in cr.GLOBAL_PRIOR_COMB_COUNTS.items():
                        if v_:
                            g[frozenset(k_)] += v_
                    if dict(g) != dict(tally):
                        fails.append(f'batch {b}: reported counts { {tuple(sorted(k_)): v_ for k_, v_ in g.items()} } != batches in which each pair was evaluated { {tuple(sorted(k_)): v_ for k_, v_ in tally.items()} }')
                        break
            finally:
                cr.mixed_rank_graph = orig
            st.count('states', len(batches))
            if fails:
                st.violation({'kind': 'e2e_growing', 'heuristic': heuristic, 'cap': cap}, '; '.join(fails), {'family': 'e2e_growing', 'heuristic': heuristic, 'fail': fails[0][9:40]})
    harness.reset_state()


def _e2e_prior(st):
    """(c4) a prior heuristic with a reference-model JSON: pairs that involve model features are not candidates; the cap and the counter apply to the remaining ones"""
    import json
    import os
    import warnings
    import pandas as pd
    from mc import harness
    from mc.common import scratch_dir, rm_scratch
    cr = _cr()
    d = scratch_dir('c07j')
    try:
        path = os.path.join(d, 'model.json')
        with open(path, 'w') as f:
            json.dump({'desc': {'features': ['f0', 'f1', 'f0,f1']}}, f)
        cols = ['f0', 'a', 'f1', 'b', 'c', 'label']
        rows = [[str((r * (i + 2) + r // 3) % 3) for i in range(5)] + [str(r % 2)] for r in range(12)]
        df = pd.DataFrame(rows, columns=cols)
        eligible = {frozenset((c, 'label')) for c in ('a', 'b', 'c', 'label')}
        for cap in (1, 2, 3, 9):
            harness.reset_state()
            args = harness.make_args(combination_number_upper_bound=cap, heuristic='surrogate-SGD', target_ranking_only='True', reference_model_JSON=path)
            tally = Counter()
            fails = []
            for b in range(4):
                with warnings.catch_warnings():
                    warnings.simplefilter('ignore')
                    ok, res = safe(cr.compute_batch_ranking, [list(r) for r in rows], set(), args, harness.InlinePool(), list(cols), harness.RecLogger(), harness.NullBar())
                st.count('evaluations')
                st.count('transitions')
                st.count('traces_validated')
                if not ok:
                    fails.append(f'batch {b}: exception {res}')
                    break
                pairs = {frozenset((a, bb)) for a, bb, _ in res[0].triplet_scores}
                if not pairs <= eligible:
                    fails.append(f'batch {b}: pairs with model features evaluated: {[tuple(p_) for p_ in pairs - eligible]}')
                    break
                if len(pairs) != min(cap, len(eligible)):
                    fails.append(f'batch {b}: {len(pairs)} pairs evaluated, cap {cap}, {len(eligible)} eligible candidates')
                    break
                for p_ in pairs:
                    tally[p_] += 1
                g = Counter()
                for k_, v_ in cr.GLOBAL_PRIOR_COMB_COUNTS.items():
                    if v_:
                        g[frozenset(k_)] += v_
                if dict(g) != dict(tally):
                    fails.append(f'batch {b}: reported counts { {tuple(sorted(k_)): v_ for k_, v_ in g.items()} } != pairs actually evaluated { {tuple(sorted(k_)): v_ for k_, v_ in tally.items()} }')
                    break
            st.count('states', 4)
            if fails:
                st.violation({'kind': 'e2e_prior', 'cap': cap}, '; '.join(fails), {'family': 'e2e_prior', 'fail': fails[0][9:40]})
    finally:
        rm_scratch(d)
        harness.reset_state()


def _big_list(st):
    """a candidate list longer than 10^4 with caps around and above it (no heuristic-specific clamp may leak into the sampler)"""
    cr = _cr()
    cands = [(f'c{i:05d}', 'label') for i in range(10500)]
    for cap in (9999, 10001, 2 ** 15):
        cr.GLOBAL_PRIOR_COMB_COUNTS.clear()
        tally = Counter()
        fails = []
        for b in range(2):
            fails = step(cr, cands, cap, tally, fairness=True)
            st.count('evaluations')
            st.count('transitions')
            st.count('traces_validated')
            if fails:
                break
        st.count('states', 2)
        if fails:
            st.violation({'kind': 'big_list', 'cap': cap}, '; '.join(f_[:300] for f_ in fails[:2]), {'family': 'big_list', 'fail': fails[0][:30]})
    cr.GLOBAL_PRIOR_COMB_COUNTS.clear()


def _two_files(st):
    """(c5) two input files streamed one after the other in one run (estimate_importances_minibatches is called once per file): the counter is per run, not per file"""
    import os
    from mc import harness
    from mc.common import scratch_dir, rm_scratch
    from mc.checks.c08 import render
    cr = _cr()
    d = scratch_dir('c07f')
    try:
        paths = []
        for i, kinds in enumerate(('gggggg', 'gggg', 'gggggggg')):
            p_ = os.path.join(d, f'part{i}.csv')
            with open(p_, 'w') as f:
                f.write(render(tuple(kinds), 'few'))
            paths.append(p_)
        for cap in (1, 2):
            harness.reset_state()
            args = harness.make_args(data_source='csv-raw', minibatch_size=2, subsampling=1, heuristic='MI-numba-randomized', combination_number_upper_bound=cap, target_ranking_only='True')
            spy = []
            orig = cr.prior_combinations_sample

            def rec(combs, a):
                out = orig(combs, a)
                spy.extend(out)
                return out

            cr.prior_combinations_sample = rec
            fails = []
            try:
                with harness.in_dir(d):
                    for p_ in paths:
                        ok, r = safe(cr.estimate_importances_minibatches, p_, ['f1', 'f2', 'label'], None, set(), args=args, data_encoding='utf-8', cpu_pool=harness.InlinePool(), delimiter=',', logger=harness.RecLogger())
                        st.count('evaluations')
                        st.count('transitions')
                        st.count('traces_validated')
                        if not ok:
                            fails.append(f'exception {r}')
                            break
                        got = {k: v for k, v in dict(r[7]).items() if v}
                        exp = dict(Counter(spy))
                        if got != exp:
                            fails.append(f'after file {os.path.basename(p_)}: reported counts {got} != selections made so far in this run {exp}')
                            break
                        if max(exp.values()) - min(list(exp.values()) + [0] * (3 - len(exp))) > 1:
                            fails.append(f'after file {os.path.basename(p_)}: unfair selections {exp}')
                            break
            finally:
                cr.prior_combinations_sample = orig
            st.count('states', 3)
            if fails:
                st.violation({'kind': 'two_files', 'cap': cap}, '; '.join(fails), {'family': 'two_files', 'fail': fails[0][:30]})
    finally:
        rm_scratch(d)
        harness.reset_state()


def _e2e_task(job):
    """(c2) the complete ranking task on files with a trailing partial batch (> 1024 rows): combination_estimation_counts.json and the copy returned by
    estimate_importances_minibatches must equal the number of batches (including the tail batch) in which each candidate pair was evaluated"""
    import pandas as pd
    from mc import pipeline, harness
    from mc.checks.c08 import tail_text
    st = Stats()
    cr = _cr()
    for (q, t, B, cap) in job:
        text = tail_text(q * B + t, 1, [])
        over = dict(minibatch_size=B, subsampling=1, target_ranking_only='True', heuristic='MI-numba-randomized', combination_number_upper_bound=cap,
                    include_cardinality_in_feature_names='False')
        ok, obs = safe(pipeline.run_task, text, over)
        st.count('evaluations')
        st.count('transitions', q + (1 if t > 1024 else 0))
        st.count('states', q + (1 if t > 1024 else 0))
        st.count('traces_validated')
        case = {'kind': 'e2e_task', 'q': q, 't': t, 'B': B, 'cap': cap}
        if not ok:
            st.violation(case, f'ranking task raised {obs}', {'family': 'e2e_task', 'fail': 'exception'})
            continue
        args = harness.make_args(**{k: v for k, v in over.items()})
        cands = cr.get_combinations_from_columns(pd.Index(['f1', 'f2', 'label']), args)
        tally = Counter()
        for trip in obs['batch_triplets']:
            pairs = {frozenset((a, b)) for a, b, _ in trip}
            for c in cands:
                if frozenset(c) in pairs:
                    tally[str(c)] += 1
        exp = {str(c): tally.get(str(c), 0) for c in cands}
        n_b = len(obs['batch_triplets'])
        if n_b != q + (1 if t > 1024 else 0):
            st.violation(case, f'{n_b} batches scored, expected {q + (1 if t > 1024 else 0)}', {'family': 'e2e_task', 'fail': 'batches'})
            continue
        js = obs['combination_estimation_counts.json']
        ret = obs.get('returned')
        got_ret = {str(k): v for k, v in dict(ret[7]).items()} if ret is not None else None
        if n_b and js is None:
            st.violation(case, f'combination_estimation_counts.json missing (exit={obs["exit"]})', {'family': 'e2e_task', 'fail': 'json_missing'})
        for name, got in (('combination_estimation_counts.json', js), ('counts returned by estimate_importances_minibatches', got_ret)):
            if got is None:
                continue
            got = {k: v for k, v in got.items() if v or k in exp}
            if got != {k: v for k, v in exp.items() if v or k in got}:
                st.violation(case, f'{name}: {got} != number of batches in which each pair was evaluated {exp} ({n_b} batches incl. tail)', {'family': 'e2e_task', 'fail': name[:20]})
        vals = list(exp.values())
        if vals and max(vals) - min(vals) > 1:
            st.violation(case, f'unfair counts {exp}', {'family': 'e2e_task', 'fail': 'unfair'})
    return st


def run(ctx):
    ms = range(1, 6) if not ctx.thorough else range(1, 8)
    jobs = [('stable', m) for m in ms]
    jobs.append(('changing', 3 if not ctx.thorough else 4))
    jobs.append(('dups', 4 if not ctx.thorough else 6))
    jobs.append(('e2e', 5 if not ctx.thorough else 9))
    tcs = [(q, t, 1100, cap) for (q, t) in ((1, 0), (0, 1030), (1, 1030), (2, 1099), (3, 0)) for cap in (2, 9)]
    jobs += [('e2e_task', tcs[i::5]) for i in range(5)]
    for st in pmap(_job, jobs):
        ctx.stats.merge(st)
    if ctx.stats.n.get('not_closed'):
        raise HarnessError('stable-list BFS did not close within its depth allowance')
    ctx.exhaustive = True
    ctx.extra['bounds'] = {'stable_m': list(ms), 'changing_depth': 3 if not ctx.thorough else 4,
                           'note': 'families (a) run to closure; (b),(b2) are complete up to the stated depth'}
    if ctx.stats.n['states'] < 20 or ctx.stats.n['transitions'] < 100:
        raise HarnessError('vacuous exploration')


def eval_case(case):
    """Replay one event history (family inferred from the events' shape) or an e2e configuration."""
    if case.get('kind') == 'two_files':
        st = Stats()
        _two_files(st)
        return [v['what'] for v in st.violations if v['case']['cap'] == case['cap']]
    if case.get('kind') == 'big_list':
        st = Stats()
        _big_list(st)
        _two_files(st)
        return [v['what'] for v in st.violations if v['case']['cap'] == case['cap']]
    if case.get('kind') == 'e2e_prior':
        st = Stats()
        _e2e_prior(st)
        _big_list(st)
        _two_files(st)
        return [v['what'] for v in st.violations if v['case']['cap'] == case['cap']]
    if case.get('kind') == 'e2e_growing':
        st = Stats()
        _e2e_growing(st)
        return [v['what'] for v in st.violations if v['case']['heuristic'] == case['heuristic'] and v['case']['cap'] == case['cap']]
    if case.get('kind') == 'e2e_task':
        return [v['what'] for v in _e2e_task([(case['q'], case['t'], case['B'], case['cap'])]).violations]
    if case.get('kind') == 'e2e':
        st = Stats()
        _e2e(st, case['batches'])
        return [v['what'] for v in st.violations]
    hist = case['history']
    fam = case.get('family')
    if isinstance(hist[0], int):
        m = case.get('m') or max(max(hist) - 1, 1)
        out = []
        for mm in ([m] if case.get('m') else range(max(1, max(hist) - 1), 8)):
            w = StableWorld(mm)
            if any(ev not in w.enabled() for ev in hist):
                continue
            fails = []
            for ev in hist:
                fails = w.apply(ev)
            if fails:
                return [f'm={mm}: ' + f for f in fails]
        return out
    for menu, caps in ((SUBLISTS, (1, 2, 5)), (DUPLISTS, (1, 2, 3, 9))):
        if all(ev[0] < len(menu) and ev[1] in caps for ev in hist):
            w = ChangingWorld(menu, caps)
            fails = []
            for ev in hist:
                fails = w.apply(ev)
            if fails:
                return fails
    return []
