"""C11 - feature construction is additive, row-aligned and follows its stated rule."""
from __future__ import annotations

import itertools
import re
import warnings

import numpy as np

from mc import harness, seqdiff
from mc.common import HarnessError, Stats, pmap, safe, shards

PROPERTY = 'C11'
LEVEL = 'exploration'
RULE = ('(A; 2-row frames over the full alphabet, in the thorough tier also 3-row frames over {"", a, "a,b-c", ab, "a "}) each constructor alone (multi-value expansion of x / x;y, sub-features x->y, y->x, x<->y, x->y;y<->x, interactions, noise controls) on every 2-column frame with '
        '2 rows (quick) / 3 rows (thorough) over {"", a, b, "a,b-c", "{", "{}", ab, "a "}; transformations on numeric columns over {"", 1, 2, -1}; '
        '(B) all 2^5 subsets of the construction flags (+ 3MR heuristic) through compute_batch_ranking on frames (x multi-valued, y selector, n numeric, label) with the frame recorded '
        'after every step. Oracle: previous frame is an exact prefix (columns, values, row order), new columns have one non-missing value per row, MULTIEX / SUBFEATURE / CONTROL-target '
        'rules recomputed, triplet names = columns of the final frame; (C) collision frames: an input column named exactly like a column the constructor derives (every derived name of five base frames, two positions), originals compared by position, the derived column still appended with the values it has without the extra column; sequence differential over <= 3 successive batches per flag (final frame + triplets vs a pristine process state). distinct_nontrivial = (frame, constructor/flag-set) cases that append at least one column')
ASSUMPTIONS = ['seed lists whose one-sided entries share the source feature but differ in the selector are outside the alphabet (their column names coincide by construction of the naming scheme)']

CELLS = ['', 'a', 'b', 'a,b-c', '{', '{}', 'ab', 'a ']   # '{' is a fragment of the default missing-symbol option ',{}' but not a missing symbol   # token 'ab' contains the tokens 'a' and 'b' (membership must be by token, not by substring); 'a ' differs from 'a' only by trailing whitespace
MISSING = {'', '{}'}


def cr():
    from outrank import core_ranking
    return core_ranking


def mkdf(columns, rows):
    import pandas as pd
    return pd.DataFrame([list(r) for r in rows], columns=list(columns))


def prefix_ok(before, after, what, allow_dup=False):
    """before must be an exact prefix of after (columns, values, row order, index)"""
    fails = []
    nb = before.shape[1]
    if after.shape[0] != before.shape[0]:
        return [({'kind': 'rows_changed', 'step': what}, f'{what}: row count changed {before.shape[0]} -> {after.shape[0]}')]
    if list(after.columns[:nb]) != list(before.columns):
        return [({'kind': 'columns_changed', 'step': what}, f'{what}: original columns {list(before.columns)} became {list(after.columns[:nb])}')]
    a = after.iloc[:, :nb]
    if not (a.values == before.values).all() if a.size else False:
        fails.append(({'kind': 'values_changed', 'step': what}, f'{what}: values of the original columns changed'))
    if list(after.index) != list(before.index):
        fails.append(({'kind': 'index_changed', 'step': what}, f'{what}: row index changed'))
    new = after.iloc[:, nb:]
    if not allow_dup and len(set(after.columns)) != len(after.columns):
        dup = [c for c in set(after.columns) if list(after.columns).count(c) > 1]
        fails.append(({'kind': 'duplicate_columns', 'step': what}, f'{what}: duplicate column names {dup[:3]}'))
    for c in new.columns:
        col = new[c]
        if hasattr(col, 'columns'):
            continue
        if col.isna().any() and not str(c).startswith(('CONTROL-', 'n_tr')) and '_tr_' not in str(c):
            fails.append(({'kind': 'missing_cell', 'step': what}, f'{what}: new column {c!r} has missing cells (misaligned)'))
    return fails


def tokens(v):
    return set(v.replace(',', '-').split('-'))


def check_multivalue(before, after, feats):
    fails = []
    nb = before.shape[1]
    new = {c: after[c].tolist() for c in after.columns[nb:]}
    expected = {}
    for f in feats:
        vals = before[f].tolist()
        toks = set().union(*[tokens(v) for v in vals]) - MISSING
        for t in toks:
            expected[f'MULTIEX-{f}-{t}'] = ['1' if t in tokens(v) else '' for v in vals]
    if set(new) != set(expected):
        fails.append(({'kind': 'multiex_columns'}, f'multi-value expansion produced {sorted(new)}, expected {sorted(expected)}'))
    for k in set(new) & set(expected):
        if new[k] != expected[k]:
            fails.append(({'kind': 'multiex_values'}, f'{k}: {new[k]} expected {expected[k]}'))
    return fails


def check_subfeatures(before, after, mapping):
    fails = []
    nb = before.shape[1]
    new = {c: after[c].tolist() for c in after.columns[nb:]}
    expected = {}
    for seed in mapping.split(';'):
        if '<->' in seed:
            a, b = seed.split('<->')
            av, bv = before[a].tolist(), before[b].tolist()
            for vb in dict.fromkeys(bv):
                for va in dict.fromkeys(av):
                    expected[f'SUBFEATURE|{a}|{b}-{va}&{vb}'] = ['1' if (x == va and y == vb) else '0' for x, y in zip(av, bv)]
        else:
            a, b = seed.split('->')
            av, bv = before[a].tolist(), before[b].tolist()
            for vb in dict.fromkeys(bv):
                expected[f'SUBFEATURE-{a}&{vb}'] = [x + 'AND' + y if y == vb else '' for x, y in zip(av, bv)]
    if set(new) != set(expected):
        fails.append(({'kind': 'subfeature_columns'}, f'sub-features produced {sorted(new)}, expected {sorted(expected)}'))
    for k in set(new) & set(expected):
        if new[k] != expected[k]:
            fails.append(({'kind': 'subfeature_values'}, f'{k}: {new[k]} expected {expected[k]}'))
    return fails


def check_noise(before, after):
    fails = []
    nb = before.shape[1]
    new = list(after.columns[nb:])
    if not new or any(not str(c).startswith('CONTROL-') for c in new):
        fails.append(({'kind': 'noise_columns'}, f'noise step appended {new}'))
    if 'CONTROL-target' not in new:
        fails.append(({'kind': 'noise_target_missing'}, 'CONTROL-target missing'))
    elif after['CONTROL-target'].tolist() != before['label'].tolist():
        fails.append(({'kind': 'noise_target'}, f'CONTROL-target {after["CONTROL-target"].tolist()} != label {before["label"].tolist()}'))
    for c in new:
        if after[c].isna().any():
            fails.append(({'kind': 'noise_missing'}, f'{c} has missing cells'))
    return fails


CONSTRUCTORS = ['mv:x', 'mv:x;y', 'sub:x->y', 'sub:y->x', 'sub:x<->y', 'sub:x->y;y<->x', 'comb', 'noise']


def run_constructor(name, columns, rows):
    C = cr()
    harness.reset_state()
    df = mkdf(columns, rows)
    before = df.copy(deep=True)
    log, bar = harness.RecLogger(), harness.NullBar()
    if name.startswith('mv:'):
        args = harness.make_args(explode_multivalue_features=name[3:])
        out = C.compute_expanded_multivalue_features(df, log, args, bar)
    elif name.startswith('sub:'):
        args = harness.make_args(subfeature_mapping=name[4:])
        out = C.compute_subfeatures(df, log, args, bar)
    elif name == 'comb':
        args = harness.make_args(interaction_order=2)
        out = C.compute_combined_features(df, args, bar)
    elif name == 'noise':
        args = harness.make_args()
        out = C.include_noisy_features(df, log, args)
    elif name.startswith('tr:'):
        args = harness.make_args(transformers=name[3:])
        with warnings.catch_warnings():
            warnings.simplefilter('ignore')
            with np.errstate(all='ignore'):
                out = C.enrich_with_transformations(df, {'n'}, log, args)
    else:
        raise HarnessError(name)
    return before, df, out


_LAST = [None, None]    # [latest judge_constructor() arguments in this process, the ones before]


def judge_constructor(name, columns, rows):
    _LAST[1], _LAST[0] = _LAST[0], [name, list(columns), [list(r) for r in rows]]
    ok, res = safe(run_constructor, name, columns, rows)
    if not ok:
        return [({'kind': 'exception', 'step': name.split(':')[0]}, f'{name}: raised {res}')], False
    before, df_in, out = res
    fails = prefix_ok(before, out, name)
    if not df_in.equals(before):
        fails.append(({'kind': 'input_mutated', 'step': name.split(':')[0]}, f'{name}: the input frame was modified in place'))
    if name.startswith('mv:'):
        fails += check_multivalue(before, out, name[3:].split(';'))
    elif name.startswith('sub:'):
        fails += check_subfeatures(before, out, name[4:])
    elif name == 'noise':
        fails += check_noise(before, out)
    return fails, out.shape[1] > before.shape[1]


COLLIDE_ROWS = [[['a', 'b'], ['a', 'b']], [['a', 'b'], ['b', 'a']], [['a,b-c', 'a'], ['ab', 'a,b-c']], [['a', 'a'], ['', 'b']], [['a', 'b'], ['a', 'a'], ['b', 'a']]]


def judge_collision(name, rows, derived, pos):
    """the frame has an INPUT column whose name equals a name the constructor derives (e.g. 'x AND y' next to x and y): the
    original columns - addressed by position, since the result may then carry the name twice - must come back unchanged and the
    derived columns must still be appended"""
    cols = ['x', 'y', 'label']
    cols2 = cols[:pos] + [derived] + cols[pos:]
    rows2 = [list(r[:pos]) + [f'q{i % 2}'] + list(r[pos:]) for i, r in enumerate(rows)]
    ok, res = safe(run_constructor, name, cols2, rows2)
    if not ok:
        return [({'kind': 'exception', 'step': name.split(':')[0], 'collide': True}, f'{name} with an input column named {derived!r}: raised {res}')]
    before, df_in, out = res
    fails = [(dict(sig, collide=True), f'input column named like a derived one ({derived!r}): ' + msg) for sig, msg in prefix_ok(before, out, name, allow_dup=True)]
    if not df_in.equals(before):
        fails.append(({'kind': 'input_mutated', 'step': name.split(':')[0], 'collide': True}, f'{name} with an input column named {derived!r}: the input frame was modified in place'))
    if list(out.columns).count(derived) < 2:
        fails.append(({'kind': 'derived_not_appended', 'step': name.split(':')[0], 'collide': True}, f'{name}: with an input column named {derived!r} the derived column of that name was not appended (columns {list(out.columns)})'))
    else:
        # the appended column must hold what the constructor derives without the extra column
        ok0, res0 = safe(run_constructor, name, cols, [list(r) for r in rows])
        if ok0 and derived in res0[2].columns and not name == 'noise':
            want = list(res0[2][derived])
            got = list(out.iloc[:, [i for i, c in enumerate(out.columns) if c == derived][-1]])
            if want != got:
                fails.append(({'kind': 'derived_values', 'step': name.split(':')[0], 'collide': True}, f'{name}: derived column {derived!r} holds {got} next to an input column of the same name, {want} without it'))
    return fails


def _collide(_):
    st = Stats()
    for base in COLLIDE_ROWS:
        rows = [list(r) + [str(i % 2)] for i, r in enumerate(base)]
        for name in CONSTRUCTORS:
            ok, res = safe(run_constructor, name, ['x', 'y', 'label'], [list(r) for r in rows])
            if not ok:
                continue
            derived = [c for c in res[2].columns[3:]]
            for d in derived:
                for pos in (0, 2):
                    st.count('evaluations')
                    st.count('collision_frames')
                    for sig, msg in judge_collision(name, rows, d, pos):
                        st.violation({'kind': 'collide', 'constructor': name, 'rows': rows, 'derived': d, 'pos': pos}, msg, sig)
    if st.n['collision_frames'] < 50 and not st.violations:
        raise HarnessError('vacuous collision family')
    return st


CELLS3 = ['', 'a', 'a,b-c', 'ab', 'a ']     # reduced alphabet for the 3-row frames of the thorough tier


def _alone(job):
    nrows, lo, hi = job
    st = Stats()
    cells = CELLS if nrows <= 2 else CELLS3
    allrows = list(itertools.product(cells, repeat=2))
    cols = ['x', 'y', 'label']
    for fr in itertools.islice(itertools.product(allrows, repeat=nrows), lo, hi):
        rows = [list(r) + [str(i % 2)] for i, r in enumerate(fr)]
        for name in CONSTRUCTORS:
            fails, grew = judge_constructor(name, cols, rows)
            st.count('evaluations')
            if grew:
                st.count('nontrivial')
            for sig, msg in fails:
                st.violation({'kind': 'alone', 'constructor': name, 'columns': cols, 'rows': rows, 'after': _LAST[1]}, msg, sig)   # the preceding call in this process: a failure caused by what it left behind replays only together with it
    if lo == 0:
        st.sample({'kind': 'alone', 'constructor': 'mv:x', 'columns': cols, 'rows': [['a,b-c', 'b-a', '0'], ['{}', '', '1']]})
    return st


def _transform_alone(_):
    st = Stats()
    cols = ['n', 'label']
    for k in (2, 3, 4):
        for ns in itertools.product(['', '1', '2', '-1'], repeat=k):
            rows = [[v, str(i % 2)] for i, v in enumerate(ns)]
            for preset in ('minimal', 'default'):
                fails, grew = judge_constructor('tr:' + preset, cols, rows)
                st.count('evaluations')
                if grew:
                    st.count('nontrivial')
                for sig, msg in fails:
                    st.violation({'kind': 'alone', 'constructor': 'tr:' + preset, 'columns': cols, 'rows': rows}, msg, sig)
    return st


# ---------------- (B) flag subsets through compute_batch_ranking -------------------------------------

FLAGS = ['transformers', 'multivalue', 'subfeatures', 'interaction', 'noise']
STEP_FUNCS = ['enrich_with_transformations', 'compute_expanded_multivalue_features', 'compute_subfeatures', 'compute_combined_features', 'include_noisy_features']


def run_batch(rows, flagset, heuristic):
    C = cr()
    harness.reset_state()
    cols = ['x', 'y', 'n', 'label']
    kw = dict(heuristic=heuristic, target_ranking_only='True')
    if 'transformers' in flagset:
        kw['transformers'] = 'minimal'
    if 'multivalue' in flagset:
        kw['explode_multivalue_features'] = 'x'
    if 'subfeatures' in flagset:
        kw['subfeature_mapping'] = 'x->y'
    if 'interaction' in flagset:
        kw['interaction_order'] = 2
    if 'noise' in flagset:
        kw['include_noise_baseline_features'] = 'True'
    args = harness.make_args(**kw)
    recorded = []
    originals = {}

    def wrap(fname):
        orig = getattr(C, fname)
        originals[fname] = orig

        def w(df, *a, **k):
            before = df.copy(deep=True)
            out = orig(df, *a, **k)
            recorded.append((fname, before, out.copy(deep=True), a, k))
            return out
        setattr(C, fname, w)

    final = {}
    orig_cov = C.compute_coverage

    def cov(df, a):
        final['frame'] = df.copy(deep=True)
        return orig_cov(df, a)

    for f in STEP_FUNCS:
        wrap(f)
    C.compute_coverage = cov
    try:
        with warnings.catch_warnings():
            warnings.simplefilter('ignore')
            with np.errstate(all='ignore'):
                res = C.compute_batch_ranking([list(r) for r in rows], {'n'}, args, harness.InlinePool(), cols, harness.RecLogger(), harness.NullBar())
    finally:
        for f, o in originals.items():
            setattr(C, f, o)
        C.compute_coverage = orig_cov
    return recorded, final.get('frame'), res[0].triplet_scores, mkdf(cols, rows)


def judge_batch(rows, flagset, heuristic):
    ok, res = safe(run_batch, rows, flagset, heuristic)
    if not ok:
        return [({'kind': 'exception', 'step': 'batch'}, f'compute_batch_ranking raised {res} with flags {sorted(flagset)}')], False
    recorded, final, trip, first = res
    fails = []
    prev = first
    for fname, before, out, a, k in recorded:
        if not before.equals(prev):
            fails.append(({'kind': 'chain', 'step': fname}, f'{fname} did not receive the frame produced by the previous step'))
        fails += prefix_ok(before, out, fname)
        if fname == 'compute_expanded_multivalue_features':
            fails += check_multivalue(before, out, ['x'])
        elif fname == 'compute_subfeatures':
            fails += check_subfeatures(before, out, 'x->y')
        elif fname == 'include_noisy_features':
            fails += check_noise(before, out)
        prev = out
    if final is None or not final.equals(prev):
        fails.append(({'kind': 'chain', 'step': 'final'}, 'the frame that is scored is not the one produced by the last construction step'))
    names = {a for a, b, s in trip} | {b for a, b, s in trip}
    if final is not None:
        cols = set(final.columns)
        if '3mr' not in heuristic:
            if names != cols:
                fails.append(({'kind': 'triplet_names'}, f'triplet names {sorted(names ^ cols)[:4]} differ from the columns of the final frame'))
        elif not names <= cols:
            fails.append(({'kind': 'triplet_names'}, f'triplets mention unknown columns {sorted(names - cols)[:4]}'))
    expected_steps = []
    if 'transformers' in flagset:
        expected_steps.append('enrich_with_transformations')
    if 'multivalue' in flagset:
        expected_steps.append('compute_expanded_multivalue_features')
    if 'subfeatures' in flagset:
        expected_steps.append('compute_subfeatures')
    if 'interaction' in flagset:
        expected_steps.append('compute_combined_features')
    if '3mr' in heuristic:
        expected_steps.append('compute_combined_features')
    if 'noise' in flagset:
        expected_steps.append('include_noisy_features')
    if [r[0] for r in recorded] != expected_steps:
        fails.append(({'kind': 'steps'}, f'steps executed {[r[0] for r in recorded]}, flags request {expected_steps}'))
    return fails, bool(recorded)


XV = ['a', 'a,ab', '']
YV = ['u', 'v']
NV = ['1', '2', '']


def _batch(job):
    nrows, lo, hi, heuristics = job
    st = Stats()
    kinds = [(x, y, n) for x in XV for y in YV for n in NV]
    subsets = [frozenset(FLAGS[i] for i in range(5) if m >> i & 1) for m in range(32)]
    for fr in itertools.islice(itertools.product(kinds, repeat=nrows), lo, hi):
        rows = [list(r) + [str(i % 2)] for i, r in enumerate(fr)]
        for fs in subsets:
            for h in heuristics:
                fails, grew = judge_batch(rows, fs, h)
                st.count('evaluations')
                st.count('flag_subset_runs')
                if grew:
                    st.count('nontrivial')
                for sig, msg in fails:
                    st.violation({'kind': 'batch', 'rows': rows, 'flags': sorted(fs), 'heuristic': h}, msg, sig)
    if lo == 0:
        st.sample({'kind': 'batch', 'rows': [['a,b', 'u', '1', '0'], ['', 'v', '', '1']], 'flags': FLAGS, 'heuristic': 'MI-numba-randomized'})
    return st


SEQ_ROWS = [
    [['a,b', 'u', '1', '0'], ['a', 'v', '2', '1'], ['', 'u', '', '0']],
    [['b-c', 'v', '2', '1'], ['c', 'w', '5', '1'], ['ab', 'w', '1', '0']],      # new tokens / selector values / numbers
    [['a', 'u', '', '0'], ['a', 'u', '"7"', '1']],                               # other row count, quoted number, empty
]


def seq_call(x):
    ri, fl = x
    C = cr()
    cols = ['x', 'y', 'n', 'label']
    kw = dict(heuristic='MI-numba-randomized', target_ranking_only='True')
    if 'transformers' in fl:
        kw['transformers'] = 'minimal'
    if 'multivalue' in fl:
        kw['explode_multivalue_features'] = 'x'
    if 'subfeatures' in fl:
        kw['subfeature_mapping'] = 'x->y'
    if 'interaction' in fl:
        kw['interaction_order'] = 2
    if 'noise' in fl:
        kw['include_noise_baseline_features'] = 'True'
    args = harness.make_args(**kw)
    frames = {}
    orig_cov = C.compute_coverage

    def cov(df, a):
        # CONTROL-volume hashes the textual rendering of a whole row, which legitimately depends on the column order chosen by the (stateful) fair sampler
        frames['final'] = {c: [str(v) for v in df[c].tolist()] for c in df.columns if c != 'CONTROL-volume'}
        return orig_cov(df, a)

    C.compute_coverage = cov
    try:
        with warnings.catch_warnings():
            warnings.simplefilter('ignore')
            with np.errstate(all='ignore'):
                res = C.compute_batch_ranking([list(r) for r in SEQ_ROWS[ri]], {'n'}, args, harness.InlinePool(), cols, harness.RecLogger(), harness.NullBar())
    finally:
        C.compute_coverage = orig_cov
    return {'frame': frames.get('final'), 'triplets': sorted((a, b, round(float(s), 7)) for a, b, s in res[0].triplet_scores if 'CONTROL-volume' not in (a, b))}


def _enrich_sets(_):
    """enrich_with_transformations called for successive batches with DIFFERENT sets of numeric columns (same preset): each call must transform exactly its own set"""
    st = Stats()
    C = cr()
    import pandas as pd
    frame = lambda: pd.DataFrame({'n': ['1', '2', '4', '9'], 'm': ['3', '1', '2', '8'], 'k': ['5', '5', '6', '1'], 'label': ['0', '1', '0', '1']})
    sets = [{'n'}, {'m'}, {'n', 'm'}, {'k'}, set()]
    for seq in itertools.permutations(range(len(sets) - 1), 3):
        harness.reset_state()
        for pos, i in enumerate(seq):
            args = harness.make_args(transformers='minimal')
            with warnings.catch_warnings():
                warnings.simplefilter('ignore')
                with np.errstate(all='ignore'):
                    ok, out = safe(C.enrich_with_transformations, frame(), set(sets[i]), harness.RecLogger(), args)
            st.count('evaluations')
            st.count('enrich_calls')
            if pos:
                st.count('nontrivial')
            case = {'kind': 'enrich_sets', 'seq': [sorted(sets[j]) for j in seq]}
            if not ok:
                st.violation(case, f'call {pos + 1} raised {out}', {'kind': 'exception', 'step': 'enrich'})
                break
            srcs = {str(c).split('_tr_')[0] for c in out.columns if '_tr_' in str(c)}
            if srcs != sets[i]:
                st.violation(case, f'call {pos + 1} with numeric columns {sorted(sets[i])} produced transformations of {sorted(srcs)}', {'kind': 'enrich_wrong_columns'})
                break
    return st


def _formula_text(job):
    from mc.checks.c12 import _formula_text_job
    return _formula_text_job(job)


def seq_menu(fl):
    return [(ri, tuple(fl)) for ri in range(len(SEQ_ROWS))]


def _seqdiff(fl):
    st = Stats()
    seqdiff.run(seq_call, seq_menu(fl), 3, st, lambda seq, pos: {'kind': 'seqdiff', 'flags': list(fl), 'seq': list(seq)}, {'kind': 'history_dependent', 'flags': '+'.join(fl)})
    return st


def _dispatch(item):
    k, job = item
    return {'alone': _alone, 'tr': _transform_alone, 'batch': _batch, 'seqdiff': _seqdiff, 'enrich': _enrich_sets, 'formula_text': _formula_text, 'collide': _collide}[k](job)


def run(ctx):
    nrows = 3 if ctx.thorough else 2
    jobs = [('alone', (2, lo, hi)) for lo, hi in shards((len(CELLS) ** 2) ** 2, 32)]
    if ctx.thorough:
        jobs += [('alone', (3, lo, hi)) for lo, hi in shards((len(CELLS3) ** 2) ** 3, 96)]
    jobs.append(('tr', None))
    if ctx.thorough:
        jobs += [('batch', (3, lo, hi, ('MI-numba-randomized',))) for lo, hi in shards(18 ** 3, 128) if (lo // max(1, (18 ** 3) // 128)) % 2 == 0]   # every second shard of the 3-row frames
        jobs += [('batch', (2, lo, hi, ('MI-numba-3mr',))) for lo, hi in shards(18 ** 2, 32)]
    else:
        jobs += [('batch', (2, lo, hi, ('MI-numba-randomized',))) for lo, hi in shards(18 ** 2, 48)]
        jobs += [('batch', (1, lo, hi, ('MI-numba-3mr',))) for lo, hi in shards(18, 6)]
    jobs.append(('enrich', None))
    jobs.append(('formula_text', None))
    jobs.append(('collide', None))
    jobs += [('seqdiff', fl) for fl in (('transformers',), ('multivalue',), ('subfeatures',), ('interaction',), ('noise',), tuple(FLAGS))]
    for st in pmap(_dispatch, jobs):
        ctx.stats.merge(st)
    ctx.extra['rows_alone'] = nrows
    if ctx.stats.n['nontrivial'] < 1000:
        raise HarnessError('vacuous')


def eval_case(case):
    if case['kind'] == 'seqdiff':
        return seqdiff.replay(seq_call, seq_menu(tuple(case['flags'])), case['seq'])
    if case['kind'] == 'formula_text':
        return [v['what'] for v in _formula_text(None).violations]
    if case['kind'] == 'enrich_sets':
        return [v['what'] for v in _enrich_sets(None).violations]
    if case['kind'] == 'collide':
        return [m for _, m in judge_collision(case['constructor'], case['rows'], case['derived'], case['pos'])]
    if case['kind'] == 'alone':
        if case.get('after'):
            judge_constructor(*case['after'])
        fails, _ = judge_constructor(case['constructor'], case['columns'], case['rows'])
    else:
        fails, _ = judge_batch(case['rows'], frozenset(case['flags']), case['heuristic'])
    return [m for _, m in fails]
