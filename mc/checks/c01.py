"""C01 - plain estimator equals the plug-in Shannon mutual information (+ corollaries)."""
from __future__ import annotations

import math

import numpy as np

from mc import enum, est, refs
from mc.common import HarnessError, Stats, pmap, safe, shards

PROPERTY = 'C01'
LEVEL = 'exploration'
RULE = ('(A) every ordered pair (Y, X) of restricted-growth strings of length n (= every pair of category vectors up to injective '
        'renaming, row order kept) scored by mutual_info_estimator_numba(Y, X, float32(1), False) in both orientations and compared '
        'with a float64 plug-in MI computed from the joint contingency table, plus the corollaries on the returned numbers; '
        '(B) replication families (x10, x1000) of every n<=5 table and extreme structures up to 10^6 rows. '
        'distinct_nontrivial = distinct unordered pairs {Y,X} in which both vectors are non-constant and Y != X')
ASSUMPTIONS = ['tolerance |got-ref| <= 1e-5 + 1e-5*|ref| (float32 return type; observed noise ~1e-7)',
               'beyond n=9 (thorough) / n=7 (quick) only the replication and extreme families are covered']


def check_pair(f, ty, ay, tx, ax, st, hy, hx, full=True):
    """both orientations of one unordered pair; returns nothing, records into st"""
    ref = refs.plugin_mi(ty, tx)
    ok1, s1 = safe(f, ay, ax, est._F1, False)
    ok2, s2 = safe(f, ax, ay, est._F1, False)
    st.count('evaluations', 2)
    if full:
        # the same pair with code ranges that do not start at 0 (codes are arbitrary non-negative integers)
        ok3, s3 = safe(f, ay + 3, ax + 1, est._F1, False)
        st.count('evaluations')
        if not ok3:
            st.violation({'Y': [v + 3 for v in ty], 'X': [v + 1 for v in tx]}, f'exception: {s3}', {'kind': 'exception'})
        elif not est.near(float(s3), ref):
            st.violation({'Y': [v + 3 for v in ty], 'X': [v + 1 for v in tx]}, f'codes shifted away from 0: score {float(s3)!r} but plug-in MI={ref!r}', {'kind': 'value_offset'})
        if len(ty) <= 5:
            # codes that are multiples of 2^16 / 2^8 (any narrower integer type used for codes or counts folds them together)
            ky, kx = int(ay.max()), int(ax.max())
            for my, mx in ((65536, 1), (1, 65536), (256, 256), (-65536, -1000)):
                # a negative factor maps code c to (max-c)*|factor|: sparse codes whose first appearances are in DESCENDING order
                vy = ay * my if my > 0 else (ky - ay) * (-my)
                vx = ax * mx if mx > 0 else (kx - ax) * (-mx)
                ok4, s4 = safe(f, vy, vx, est._F1, False)
                st.count('evaluations')
                if not ok4:
                    st.violation({'Y': vy.tolist(), 'X': vx.tolist()}, f'exception: {s4}', {'kind': 'exception'})
                elif not est.near(float(s4), ref):
                    st.violation({'Y': vy.tolist(), 'X': vx.tolist()}, f'codes spread over a wide range: score {float(s4)!r} but plug-in MI={ref!r}', {'kind': 'value_wide_codes'})
    if not (ok1 and ok2):
        st.violation({'Y': ty, 'X': tx}, f'exception: {s1 if not ok1 else s2}', {'kind': 'exception'})
        return
    s1 = float(s1)
    s2 = float(s2)
    fails = []
    if not est.near(s1, ref):
        fails.append(('value', f'score(Y,X)={s1!r} but plug-in MI={ref!r}'))
    if not est.near(s2, ref):
        fails.append(('value', f'score(X,Y)={s2!r} but plug-in MI={ref!r}'))
    if not est.near(s1, s2):
        fails.append(('symmetry', f'score(Y,X)={s1!r} != score(X,Y)={s2!r}'))
    if s1 < -est.ATOL or s2 < -est.ATOL:
        fails.append(('negative', f'negative score {min(s1, s2)!r}'))
    if (hy == 0.0 or hx == 0.0) and (abs(s1) > est.ATOL or abs(s2) > est.ATOL):
        fails.append(('constant', f'constant side but score {s1!r}/{s2!r}'))
    if max(s1, s2) > min(hy, hx) + est.ATOL + est.RTOL * min(hy, hx):
        fails.append(('entropy_bound', f'score {max(s1, s2)!r} exceeds min(H(Y),H(X))={min(hy, hx)!r}'))
    if ty == tx and not est.near(s1, hy):
        fails.append(('self', f'score(Y,Y)={s1!r} but H(Y)={hy!r}'))
    for kind, msg in fails:
        st.violation({'Y': ty, 'X': tx}, msg, {'kind': kind})
    st.see('scores', round(s1, 5))


def _shard_pairs(job):
    n, lo, hi = job
    st = Stats()
    f = est.estimator()
    A = est.arrs(n)
    A2 = est.arrs2(n)
    H = [refs.entropy(t) for t, _ in A]
    for i in range(lo, hi):
        ty, ay = A[i]
        for j in range(i, len(A)):
            tx, ax = A2[j]
            check_pair(f, ty, ay, tx, ax, st, H[i], H[j])
            if H[i] > 0 and H[j] > 0 and i != j:
                st.count('nontrivial')
                if 1 in np.bincount(ax) or 1 in np.bincount(ay):
                    st.count('with_singleton_stratum')
            elif i == j:
                st.count('identical_pairs')
            else:
                st.count('constant_side')
    if lo == 0:
        st.sample({'Y': A[0][0], 'X': A[-1][0]})
        st.sample({'Y': A[len(A) // 2][0], 'X': A[len(A) // 3][0]})
    return st


def _buffers(_):
    """the SAME two array objects are refilled in place with successive vector pairs (a caller streaming batches through preallocated buffers):
    the score must depend on the current contents only"""
    st = Stats()
    f = est.estimator()
    for n in (3, 4, 5):
        A = est.arrs(n)
        by = np.zeros(n, dtype=np.int32)
        bx = np.zeros(n, dtype=np.int32)
        for i, (ty, _) in enumerate(A):
            for j in range(0, len(A), 3):
                tx = A[(i + j) % len(A)][0]
                by[:] = ty
                bx[:] = tx
                ok, s = safe(f, by, bx, est._F1, False)
                st.count('evaluations')
                st.count('buffer_reuse_calls')
                if not ok:
                    st.violation({'Y': ty, 'X': tx, 'reused_buffers': True}, f'exception {s}', {'kind': 'exception'})
                elif not est.near(float(s), refs.plugin_mi(ty, tx)):
                    st.violation({'Y': ty, 'X': tx, 'reused_buffers': True}, f'buffers refilled in place: score {float(s)!r} for contents Y={ty} X={tx}, plug-in MI {refs.plugin_mi(ty, tx)!r}', {'kind': 'value_reused_buffers'})
                    return st
    return st


def _replication(job):
    m, lo, hi = job
    st = Stats()
    f = est.estimator()
    for n in range(1, 6):
        A = est.arrs(n)
        for i in range(len(A)):
            if not (lo <= i < hi) and n == 5:
                continue
            if n < 5 and lo != 0:
                continue
            ty, ay = A[i]
            by = np.tile(ay, m)
            for j in range(len(A)):
                tx, ax = A[j]
                bx = np.tile(ax, m)
                ref = refs.plugin_mi(ty, tx)
                ok, s = safe(f, by, bx, est._F1, False)
                st.count('evaluations')
                st.count('replicated')
                if not ok:
                    st.violation({'Y': ty, 'X': tx, 'tile': m}, f'exception {s}', {'kind': 'exception'})
                elif not est.near(float(s), ref):
                    st.violation({'Y': ty, 'X': tx, 'tile': m}, f'tiled x{m}: score {float(s)!r} vs plug-in {ref!r}', {'kind': 'replication'})
    return st


def extreme_cases(n):
    """(name, Y, X, expected MI) with exact expectations"""
    ar = np.arange(n, dtype=np.int32)
    zeros = np.zeros(n, dtype=np.int32)
    out = []
    out.append(('distinct_vs_distinct', ar, ar[::-1].copy(), math.log(n)))
    out.append(('distinct_vs_self', ar, ar.copy(), math.log(n)))
    out.append(('const_vs_const', zeros, zeros.copy(), 0.0))
    out.append(('const_vs_distinct', zeros, ar, 0.0))
    k = min(100, n // 4)
    dom = zeros.copy()
    dom[:k] = np.arange(1, k + 1)
    hd = refs.entropy_counts([n - k] + [1] * k, n)
    out.append(('dominant_vs_const', dom, zeros.copy(), 0.0))
    out.append(('dominant_vs_self', dom, dom.copy(), hd))
    out.append(('dominant_vs_distinct', dom, ar, hd))
    half = (ar % 2).astype(np.int32)
    top = np.where(half == 1, 2 ** 20 - 1, 0).astype(np.int32)
    out.append(('binary_codes_at_range_edges', top, half, math.log(2) if n % 2 == 0 else refs.plugin_mi(top.tolist(), half.tolist())))
    quarter = (ar % 4).astype(np.int32)
    out.append(('binary_vs_quaternary', half, quarter, refs.plugin_mi((ar % 2).tolist()[:4] * 1, (ar % 4).tolist()[:4]) if n % 4 == 0 else refs.plugin_mi(half.tolist(), quarter.tolist())))
    if n <= 10 ** 4:
        out.append(('distinct_vs_const', ar, zeros.copy(), 0.0))
        out.append(('distinct_vs_binary', ar, half, refs.entropy(half.tolist())))
    return out


def _extreme(n):
    st = Stats()
    f = est.estimator()
    for name, Y, X, exp in extreme_cases(n):
        for (a, b) in ((Y, X), (X, Y)):
            if name in ('dominant_vs_distinct', 'distinct_vs_const', 'distinct_vs_binary', 'const_vs_distinct') and n > 10 ** 4 and a is X and name != 'const_vs_distinct':
                pass
            # cost guard: (#classes of first arg) x (rows in non-singleton strata of second) must stay small
            ncls = len(np.unique(a))
            _, cnts = np.unique(b, return_counts=True)
            rows = int(cnts[cnts > 1].sum())
            if ncls * rows > 4 * 10 ** 8:
                st.count('extreme_skipped_cost')
                continue
            ok, s = safe(f, a, b, est._F1, False)
            st.count('evaluations')
            st.count('extreme')
            if not ok:
                st.violation({'extreme': name, 'n': n}, f'exception {s}', {'kind': 'exception'})
            elif not est.near(float(s), exp, atol=2e-5, rtol=2e-5):
                st.violation({'extreme': name, 'n': n}, f'{name} n={n}: score {float(s)!r} expected {exp!r}', {'kind': 'extreme', 'name': name})
    return st


def run(ctx):
    nmax = 9 if ctx.thorough else 7
    jobs = []
    for n in range(1, nmax + 1):
        cnt = enum.BELL[n]
        # triangular workload: more shards for big n, split unevenly is fine
        for lo, hi in shards(cnt, 512 if n >= 9 else (64 if n >= 7 else (16 if n >= 5 else 1))):
            jobs.append((n, lo, hi))
    jobs.sort(key=lambda j: -(j[2] - j[1]) * (enum.BELL[j[0]] - j[1]))
    for st in pmap(_shard_pairs, jobs):
        ctx.stats.merge(st)
    rep_jobs = [(m, lo, hi) for m in (10, 1000) for lo, hi in shards(52, 8)]
    for st in pmap(_replication, rep_jobs):
        ctx.stats.merge(st)
    ctx.stats.merge(_buffers(None))
    sizes = [10 ** 3, 10 ** 5, 10 ** 6] if ctx.thorough else [10 ** 3, 10 ** 5]
    for st in pmap(_extreme, sizes):
        ctx.stats.merge(st)
    ctx.extra['n_max'] = nmax
    ctx.extra['extreme_sizes'] = sizes
    if ctx.stats.n['nontrivial'] < 1000 or len(ctx.stats.sets['scores']) < 20:
        raise HarnessError('vacuous: too few non-trivial pairs or distinct scores')


def eval_case(case):
    f = est.estimator()
    st = Stats()
    if case.get('reused_buffers'):
        return [v['what'] for v in _buffers(None).violations]
    if 'extreme' in case:
        for name, Y, X, exp in extreme_cases(case['n']):
            if name == case['extreme']:
                s = float(f(Y, X, est._F1, False))
                if not est.near(s, exp, 2e-5, 2e-5):
                    return [f'{name}: {s!r} expected {exp!r}']
        return []
    ty, tx = tuple(case['Y']), tuple(case['X'])
    m = case.get('tile', 1)
    ay = np.tile(np.array(ty, dtype=np.int32), m)
    ax = np.tile(np.array(tx, dtype=np.int32), m)
    # a recorded case whose codes are already spread (multiples of 2^8 / 2^16) is judged as it stands: spreading it again would leave the 32-bit code range
    check_pair(f, ty, ay, tx, ax, st, refs.entropy(ty), refs.entropy(tx), full=max(max(ty), max(tx)) < 256)
    return [v['what'] for v in st.violations]
