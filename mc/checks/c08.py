"""C08 - streaming equals reference batch semantics with median aggregation."""
from __future__ import annotations

import itertools

from mc import pipeline, seqdiff
from mc.common import HarnessError, Stats, pmap, safe, shards

PROPERTY = 'C08'
LEVEL = 'model_checking'
RULE = ('the real ranking task (outrank_task_conduct_ranking, in-process pool, recording wrappers around the batch scorer and the checkpoint writer) on generated CSV files: '
        '(a) every sequence of k<=7 (quick) / k<=10 (thorough) data lines over {well-formed, malformed}, malformed rendered as one field too few / too many / an empty line, each well-formed row '
        'unique to its position, x minibatch_size {1,2,3} x subsampling {1,2,3}; (b) tail-boundary family at the real threshold: accepted rows = q*B+t for B in {1025,1500}, '
        'q in {0,1,2}, t in {0,1,1023,1024,1025,B-1}, subsampling {1,2}, with <= 2 malformed rows at boundary-adjacent positions; (c) header-only / empty-body files; every k<=4 file also through the real command-line entry point (argparse namespace). Oracle: independent '
        'reference batcher; recorded batches, invalid count, per-batch triplets (differential re-scoring), every checkpoint prefix, final medians and order. '
        'states = batch boundaries reached (each with its checkpoint compared); transitions = data lines consumed; non-trivial = files with >= 2 batches or >= 1 malformed row')
ASSUMPTIONS = ['scoring inside a batch is the real scorer (C05 judges it); the combination cap is non-binding here so that per-batch multiplicities are uniform',
               'in-process pool (the schedule is C09\'s subject)']

HEADER = 'f1,f2,label'


def good_row(i):
    if i % 3 == 0:
        return f'"r{i},x",{i % 3},{i % 2}'     # a quoted field with an embedded delimiter is still one field
    return f'r{i},{i % 3},{i % 2}'


def render(kinds, bad_style):
    lines = [HEADER]
    for i, k in enumerate(kinds, start=1):
        if k == 'g':
            lines.append(good_row(i))
        elif bad_style == 'few':
            lines.append(f'r{i},{i % 2}')
        elif bad_style == 'blank':
            lines.append('')
        else:
            lines.append(f'r{i},{i % 3},{i % 2},x')
    return '\n'.join(lines) + '\n'


def _small(job):
    k, lo, hi = job
    st = Stats()
    seqs = list(itertools.product('gb', repeat=k))[lo:hi]
    for kinds in seqs:
        styles = ('few', 'many', 'blank') if 'b' in kinds else ('few',)
        for style in styles:
            text = render(kinds, style)
            for mb in (1, 2, 3):
                for sub in (1, 2, 3):
                    over = dict(minibatch_size=mb, subsampling=sub)
                    fails, info = pipeline.judge_streaming(text, over)
                    if k <= 4 and not fails:
                        # the same file through the real command line (argparse in outrank.__main__), with relative paths
                        f2, _ = pipeline.judge_streaming(text, dict(over, task='ranking'), via_cli=True, relative=True)
                        st.count('evaluations')
                        st.count('cli_runs')
                        fails = [(dict(sig, via_cli=True), 'via the command line with relative paths: ' + msg) for sig, msg in f2]
                    if k <= 4 and not fails and text.endswith('\n'):
                        # the same file without the final line terminator
                        f3, _ = pipeline.judge_streaming(text[:-1], over)
                        st.count('evaluations')
                        st.count('no_trailing_newline_runs')
                        fails = [(dict(sig, no_final_newline=True), 'file without a final newline: ' + msg) for sig, msg in f3]
                    st.count('evaluations')
                    st.count('traces_validated')
                    st.count('transitions', k)
                    st.count('states', info.get('n_batches', 0) + 1)
                    if info.get('n_batches', 0) >= 2 or 'b' in kinds:
                        st.count('nontrivial')
                    st.see('batch_counts', info.get('n_batches', -1))
                    for sig, msg in fails:
                        st.violation({'kind': 'small', 'lines': ''.join(kinds), 'bad_style': style, 'minibatch_size': mb, 'subsampling': sub}, msg, dict(sig, family='small'))
    if lo == 0 and seqs:
        st.sample({'kind': 'small', 'lines': ''.join(seqs[-1]), 'bad_style': 'few', 'minibatch_size': 2, 'subsampling': 2})
    return st


def tail_text(n_accept, sub, bad_positions):
    """file whose accepted rows (after subsampling) number n_accept; bad_positions: indices (0-based, in sampled order) where a malformed line is inserted before that accepted row"""
    lines = [HEADER]
    pos = 0
    sampled = 0
    acc = 0
    bad = sorted(bad_positions)
    while acc < n_accept or bad:
        pos += 1
        if pos % sub != 0:
            lines.append(good_row(pos))
            continue
        if bad and bad[0] <= acc:
            bad.pop(0)
            lines.append(f'r{pos},{pos % 2}')
            continue
        lines.append(good_row(pos))
        acc += 1
    return '\n'.join(lines) + '\n'


def tail_cases(thorough):
    out = []
    for B in (1025, 1500):
        for q in (0, 1, 2):
            for t in (0, 1, 1023, 1024, 1025, B - 1):
                if t >= B:
                    continue
                n = q * B + t
                for sub in (1, 2):
                    adj = sorted({0, max(0, n - 1), n} | {x for b in range(1, q + 1) for x in (b * B - 1, b * B, b * B + 1) if 0 <= x <= n})
                    combos = [()] + [(a,) for a in adj]
                    if thorough:
                        combos += list(itertools.combinations(adj, 2))
                    elif len(adj) >= 2:
                        combos += [(adj[0], adj[-1]), (adj[len(adj) // 2], adj[-1])]
                    if not thorough and (q == 2 or sub == 2):
                        combos = combos[:1] + combos[1:3]
                    for bad in combos:
                        out.append({'kind': 'tail', 'B': B, 'q': q, 't': t, 'subsampling': sub, 'bad': list(bad)})
    return out


def run_tail(case):
    n = case['q'] * case['B'] + case['t']
    text = tail_text(n, case['subsampling'], case['bad'])
    return pipeline.judge_streaming(text, dict(minibatch_size=case['B'], subsampling=case['subsampling'], target_ranking_only='True'))


def _tail(job):
    st = Stats()
    for case in job:
        fails, info = run_tail(case)
        st.count('evaluations')
        st.count('traces_validated')
        st.count('tail_cases')
        st.count('nontrivial')
        st.count('transitions', case['q'] * case['B'] + case['t'])
        st.count('states', info.get('n_batches', 0) + 1)
        st.see('tail_batch_counts', (case['q'], case['t'] > 1024, info.get('n_batches', -1)))
        for sig, msg in fails:
            st.violation(case, msg, dict(sig, family='tail', t=case['t']))
    return st


def _gz(_):
    """the streaming loop on gzip-compressed input (the path the ob-vw source takes): same rows, same batches"""
    import gzip
    import os
    from mc import harness
    from mc.common import scratch_dir, rm_scratch
    from outrank import core_ranking as cr
    from outrank.core_utils import BatchRankingSummary
    st = Stats()
    d = scratch_dir('c08gz')
    try:
        for k in range(1, 6):
            for kinds in itertools.product('gb', repeat=k):
                text = render(kinds, 'few')
                for mb, sub in ((1, 1), (2, 1), (1, 2), (2, 3)):
                    path = os.path.join(d, 'data.csv.gz')
                    with gzip.open(path, 'wt', encoding='utf-8') as f:
                        f.write(text)
                    rec = []

                    def recorder(line_tmp_storage, *a, **kw):
                        rec.append([list(r) for r in line_tmp_storage])
                        return BatchRankingSummary([], {}), {}, {}, {}

                    log = harness.RecLogger()
                    args = harness.make_args(data_source='csv-raw', minibatch_size=mb, subsampling=sub, heuristic='MI-numba-randomized')
                    orig = cr.compute_batch_ranking
                    cr.compute_batch_ranking = recorder
                    try:
                        with harness.in_dir(d):
                            harness.reset_state()
                            ok, r = safe(cr.estimate_importances_minibatches, path, HEADER.split(','), None, set(), args=args, data_encoding='utf-8', cpu_pool=harness.InlinePool(), delimiter=',', logger=log)
                    finally:
                        cr.compute_batch_ranking = orig
                    st.count('evaluations')
                    st.count('gz_runs')
                    st.count('traces_validated')
                    st.count('transitions', k)
                    case = {'kind': 'gz', 'lines': ''.join(kinds), 'minibatch_size': mb, 'subsampling': sub}
                    if not ok:
                        st.violation(case, f'streaming loop raised {r} on gz input', {'kind': 'exception', 'family': 'gz'})
                        continue
                    header, ref_b, ref_inv = pipeline.reference_batches(text, mb, sub)
                    inv = 0
                    for m_ in log.msgs:
                        if m_.startswith('Detected '):
                            inv = int(m_.split()[1])
                    if rec != ref_b or inv != ref_inv:
                        st.violation(case, f'gz input: batches {rec} (invalid {inv}), reference {ref_b} (invalid {ref_inv})', {'kind': 'batches', 'family': 'gz'})
    finally:
        rm_scratch(d)
    st.count('states', 1)
    return st


def _constant(_):
    """heuristic Constant through estimate_importances_minibatches (the task itself cannot finish a Constant run: it removes a checkpoint file that such a run never writes):
    the returned frame must still be the per-pair median (0.0) over the batches consumed, for exactly the reference batches"""
    import os
    from mc import harness
    from mc.common import scratch_dir, rm_scratch
    from outrank import core_ranking as cr
    st = Stats()
    d = scratch_dir('c08c')
    try:
        for kinds in ('gggg', 'ggbgg', 'g', 'gbg'):
            text = render(tuple(kinds), 'few')
            for mb in (1, 2):
                path = os.path.join(d, 'data.csv')
                with open(path, 'w') as f:
                    f.write(text)
                rec = []
                orig = cr.compute_batch_ranking

                def rec_cbr(rows, *a, **k):
                    rec.append([list(r) for r in rows])
                    return orig(rows, *a, **k)

                cr.compute_batch_ranking = rec_cbr
                args = harness.make_args(data_source='csv-raw', minibatch_size=mb, subsampling=1, heuristic='Constant')
                try:
                    with harness.in_dir(d):
                        harness.reset_state()
                        ok, r = safe(cr.estimate_importances_minibatches, path, HEADER.split(','), None, set(), args=args, data_encoding='utf-8', cpu_pool=harness.InlinePool(), delimiter=',', logger=harness.RecLogger())
                finally:
                    cr.compute_batch_ranking = orig
                st.count('evaluations')
                st.count('constant_runs')
                st.count('traces_validated')
                case = {'kind': 'constant', 'lines': kinds, 'minibatch_size': mb}
                if not ok:
                    st.violation(case, f'streaming function raised {r}', {'kind': 'exception', 'family': 'constant'})
                    continue
                header, ref_b, _ = pipeline.reference_batches(text, mb, 1)
                if rec != ref_b:
                    st.violation(case, f'batches {rec} differ from the reference {ref_b}', {'kind': 'batches', 'family': 'constant'})
                    continue
                g = r[1]
                if ref_b and (g is None or set(zip(g.FeatureA, g.FeatureB)) != {(c, 'label') for c in header} or any(float(v) != 0.0 for v in g.Score)):
                    st.violation(case, f'returned frame {None if g is None else g.values.tolist()} is not the 0.0 median of every (column, label) pair over {len(ref_b)} batches', {'kind': 'returned_frame', 'family': 'constant'})
    finally:
        rm_scratch(d)
    st.count('states', 1)
    return st


def _directed(_):
    """files whose scores include several distinct NEGATIVE values (final order must be numeric), and column names that contain characters the code uses in its own derived names"""
    from mc.checks.c09 import data_text
    st = Stats()
    cases = [(data_text(24, ['a', 'b', 'c', 'd']), dict(minibatch_size=12, subsampling=1, target_ranking_only='False')),
             (data_text(24, ['a', 'b', 'c', 'd']), dict(minibatch_size=8, subsampling=1, target_ranking_only='True', heuristic='correlation-Pearson')),
             (data_text(18, ['a|b', 'c', 'a', 'b|c']), dict(minibatch_size=6, subsampling=1, target_ranking_only='False')),
             (data_text(18, ['x-y', 'y', 'x', 'p&q', 'k(1; 2)']), dict(minibatch_size=9, subsampling=1, target_ranking_only='False'))]
    for text, over in cases:
        fails, info = pipeline.judge_streaming(text, over)
        st.count('evaluations')
        st.count('traces_validated')
        st.count('directed_files')
        st.count('nontrivial')
        st.count('states', info.get('n_batches', 0) + 1)
        for sig, msg in fails:
            st.violation({'kind': 'directed', 'header': text.split('\n')[0], 'over': over}, msg, dict(sig, family='directed'))
    return st


def _edge(_):
    st = Stats()
    many_bad = render(tuple('gb' * 40 + 'ggg'), 'few')      # 40 malformed rows: more than a small bounded buffer of samples can hold
    for text in (HEADER + '\n', HEADER, HEADER + '\n\n', HEADER + '\n' + good_row(1) + '\n', many_bad):
        for mb, sub in ((1, 1), (2, 1), (1, 2)):
            fails, info = pipeline.judge_streaming(text, dict(minibatch_size=mb, subsampling=sub))
            st.count('evaluations')
            st.count('traces_validated')
            st.count('edge_cases')
            st.count('states')
            st.count('transitions', text.count('\n'))
            for sig, msg in fails:
                st.violation({'kind': 'edge', 'text': text, 'minibatch_size': mb, 'subsampling': sub}, msg, dict(sig, family='edge'))
    return st


SEQ_FILES = [(render(tuple('gggg'), 'few'), 2, 1), (render(tuple('gbgggg'), 'many'), 1, 2), (render(tuple('ggggggg'), 'few'), 3, 1)]


def seq_call(x):
    text, mb, sub = x
    obs = pipeline.run_task(text, dict(minibatch_size=mb, subsampling=sub, include_cardinality_in_feature_names='False', heuristic='MI-numba-randomized'), reset=False)
    return {'batches': obs['batches'], 'pairwise': obs['pairwise'], 'checkpoints': obs['checkpoints'], 'invalid': obs['invalid'], 'exit': obs['exit']}


def _seqdiff(_):
    """two ranking tasks one after the other in one process (a library user, a notebook, the test-suite): the second must not see the first"""
    st = Stats()
    seqdiff.run(seq_call, SEQ_FILES, 2, st, lambda seq, pos: {'kind': 'seqdiff', 'seq': list(seq)}, {'kind': 'history_dependent', 'family': 'task_sequence'})
    st.count('traces_validated', int(st.n['seqdiff_calls']))
    return st


def _dispatch(item):
    k, job = item
    if k == 'seqdiff':
        return _seqdiff(job)
    if k == 'gz':
        return _gz(job)
    if k == 'constant':
        return _constant(job)
    if k == 'directed':
        return _directed(job)
    return {'small': _small, 'tail': _tail, 'edge': _edge}[k](job)


def run(ctx):
    kmax = 10 if ctx.thorough else 7
    jobs = []
    for k in range(1, kmax + 1):
        jobs += [('small', (k, lo, hi)) for lo, hi in shards(2 ** k, max(1, 2 ** k // 8))]
    tc = tail_cases(ctx.thorough)
    jobs += [('tail', tc[i::64]) for i in range(64) if tc[i::64]]
    jobs.append(('edge', None))
    jobs.append(('seqdiff', None))
    jobs.append(('gz', None))
    jobs.append(('constant', None))
    jobs.append(('directed', None))
    for st in pmap(_dispatch, jobs):
        ctx.stats.merge(st)
    ctx.extra['k_max'] = kmax
    ctx.extra['tail_cases'] = len(tc)
    if ctx.stats.n['nontrivial'] < 500 or len(ctx.stats.sets['batch_counts']) < 4:
        raise HarnessError('vacuous')


def eval_case(case):
    if case['kind'] == 'seqdiff':
        return seqdiff.replay(seq_call, SEQ_FILES, case['seq'])
    if case['kind'] == 'directed':
        return [v['what'] for v in _directed(None).violations if v['case']['header'] == case['header']]
    if case['kind'] == 'constant':
        return [v['what'] for v in _constant(None).violations if v['case']['lines'] == case['lines']]
    if case['kind'] == 'gz':
        return [v['what'] for v in _gz(None).violations if v['case']['lines'] == case['lines']]
    if case['kind'] == 'small':
        text = render(tuple(case['lines']), case['bad_style'])
        fails, _ = pipeline.judge_streaming(text, dict(minibatch_size=case['minibatch_size'], subsampling=case['subsampling']))
    elif case['kind'] == 'tail':
        fails, _ = run_tail(case)
    else:
        fails, _ = pipeline.judge_streaming(case['text'], dict(minibatch_size=case['minibatch_size'], subsampling=case['subsampling']))
    return [m for _, m in fails]
