"""C09 - results independent of worker count and scheduling, and reproducible."""
from __future__ import annotations

import itertools
import json
import os

from mc import pipeline, procs, vpool
from mc.common import HarnessError, Stats, pmap, safe, scratch_dir, rm_scratch, VERIF, isolated

PROPERTY = 'C09'
LEVEL = 'model_checking'
RULE = ('(i) the real ranking task driven through a virtual pool that implements the pathos contract (dill-shipped function, chunking rule, per-worker copies of all process-local '
        'state, results by input position, unordered API in an explored completion order, result pending for 0..3 polls); EVERY assignment of chunks to W in {1,2,3} interchangeable workers over two consecutive batches is executed (restricted-growth schedules) '
        'for a target-only and (deviation-bounded) a pairwise configuration; oracle: pairwise_ranks.tsv and per-batch triplet multisets equal those of the sequential schedule. '
        '(ii) the real CLI with the real pathos pool in fresh interpreters over the complete grid PYTHONHASHSEED x --num_threads on configurations in which a Python set decides '
        'a column order (feature focus, multi-value expansion, transformers, sub-features + noise controls), compared as sets of (A,B,score) rows. '
        'states = worker-state configurations visited (one per executed chunk); transitions = chunks executed; non-trivial = schedules that use >= 2 workers')
ASSUMPTIONS = ['virtual pool: workers are isolated processes forked at first use; map_async returns in input order; chunk = atomic step (library contract)',
               'real OS scheduling is exercised free-running over the grid (corroboration), not enumerated',
               'the 4-second polling sleep of the scoring loop is scaled down in the fresh-process runs (time is a harness seam)']


def lcg_stream(seed=12345):
    x = seed
    while True:
        x = (1103515245 * x + 12345) % (1 << 31)
        yield x >> 8


def data_text(n_rows, cols):
    """deterministic, irregular, mutually dependent columns (asymmetric corrected scores)"""
    g = lcg_stream(7)
    lines = [','.join(cols + ['label'])]
    for i in range(n_rows):
        row = []
        prev = 0
        for j in range(len(cols)):
            v = (prev + next(g) % (2 + j % 2)) % (j + 3)
            row.append(str(v))
            prev = v * 2 + 1
        lines.append(','.join(row + [str((prev + next(g) % 3 // 2) % 2)]))
    return '\n'.join(lines) + '\n'


CONFIGS = {
    'target': dict(cols=['a', 'b', 'c'], over=dict(target_ranking_only='True', minibatch_size=8, subsampling=1, heuristic='MI-numba-randomized')),
    'pairwise': dict(cols=['a', 'b', 'c'], over=dict(target_ranking_only='False', minibatch_size=8, subsampling=1, heuristic='MI-numba-randomized')),
    'capped5': dict(cols=['a', 'b', 'c'], over=dict(target_ranking_only='False', minibatch_size=8, subsampling=1, heuristic='MI-numba-randomized', combination_number_upper_bound=5)),
    'ratio': dict(cols=['a', 'b', 'c'], over=dict(target_ranking_only='True', minibatch_size=8, subsampling=1, heuristic='MI-numba-randomized', mi_stratified_sampling_ratio=0.5)),
    # scaled instance: the size constant of the coverage heuristic is set to 4 for this configuration, so that any size-triggered path is taken by the 8-row batches
    'coverage_scaled': dict(cols=['a', 'b', 'c'], over=dict(target_ranking_only='False', minibatch_size=8, subsampling=1, heuristic='max-value-coverage'), max_size=4),
    'noise': dict(cols=['a', 'b'], over=dict(target_ranking_only='True', minibatch_size=8, subsampling=1, heuristic='MI-numba-randomized', include_noise_baseline_features='True')),
}


def observe(obs):
    pw = obs['pairwise']
    rows = sorted((r[0], r[1], round(float(r[2]), 9)) for r in pw[1:]) if pw else None
    bt = [sorted((a, b, round(s, 9)) for a, b, s in t) for t in obs['batch_triplets']]
    return {'pairwise': rows, 'batch_triplets': bt, 'exit': obs['exit']}


def run_schedule(cfg, W, sched, completion='fifo', pending=0):
    import types
    from outrank import core_ranking as cr
    c = CONFIGS[cfg]
    pool = vpool.VirtualPool(W, sched, completion, pending)
    over = dict(c['over'])
    over['include_cardinality_in_feature_names'] = 'False'
    from outrank.algorithms.feature_ranking import ranking_cov_alignment as rca
    old_max = rca.max_size
    if c.get('max_size'):
        rca.max_size = c['max_size']
    old_time = cr.time
    if pending:
        # the result is reported "not ready" for a few polls; the 4-second sleep between polls is skipped (time is a seam)
        cr.time = types.SimpleNamespace(sleep=lambda s_: None)
    try:
        obs = pipeline.run_task(data_text(16, c['cols']), over, pool=pool)
    finally:
        cr.time = old_time
        rca.max_size = old_max
    return observe(obs), pool.k, pool.log


def bounded_schedules(k, W, bound):
    """restricted-growth schedules of k chunks with at most `bound` chunks not on worker 0, generated directly"""
    for r in range(0, bound + 1):
        for pos in itertools.combinations(range(1, k), r):
            for vals in itertools.product(range(1, W), repeat=r):
                s = [0] * k
                mx = 0
                ok = True
                for p_, v in zip(pos, vals):
                    if v > mx + 1:
                        ok = False
                        break
                    mx = max(mx, v)
                    s[p_] = v
                if ok:
                    yield tuple(s)


def _sched_job(job):
    cfg, W, scheds, base = job
    st = Stats()
    for sched in scheds:
        completion, pending = 'fifo', 0
        if sched and isinstance(sched[0], str):
            # environment deviations other than the chunk assignment: completion order of the unordered API, polls that find the result pending
            completion, pending, sched = sched[0], sched[1], tuple(sched[2])
        ok, res = safe(run_schedule, cfg, W, sched, completion, pending)
        st.count('evaluations')
        st.count('traces_validated')
        if not ok:
            st.violation({'kind': 'schedule', 'config': cfg, 'W': W, 'schedule': list(sched)}, f'task raised {res} under schedule {sched}', {'kind': 'exception', 'config': cfg})
            continue
        ob, k, log = res
        st.count('transitions', k)
        st.count('states', k)
        if len(set(sched)) >= 2 or pending or completion != 'fifo':
            st.count('nontrivial')
        st.see('outcomes_' + cfg, json.dumps(ob['pairwise']))
        if ob != base:
            what = 'pairwise_ranks.tsv' if ob['pairwise'] != base['pairwise'] else 'per-batch triplets'
            diff = ''
            if ob['pairwise'] and base['pairwise']:
                d = [(x, y) for x, y in zip(ob['pairwise'], base['pairwise']) if x != y][:2]
                diff = f' e.g. {d}'
            st.violation({'kind': 'schedule', 'config': cfg, 'W': W, 'schedule': [completion, pending, list(sched)] if (pending or completion != 'fifo') else list(sched)},
                         f'{cfg}: {what} (completion order {completion}, {pending} pending polls) under schedule {list(sched)} (W={W}) differ from the sequential schedule{diff}', {'kind': 'schedule_dependent', 'config': cfg})
    return st


# ---------------- (ii) fresh processes: hash seeds x real pool sizes ---------------------------------

def write_dataset(d, name):
    os.makedirs(d, exist_ok=True)
    n = 40
    if name == 'transformers':
        feats = [{'name': 'n1', 'type': 'float'}, {'name': 'n2', 'type': 'float'}, {'name': 'n3', 'type': 'float'}, {'name': 'k', 'type': 'str'}, {'name': 'label', 'type': 'str'}]
        with open(os.path.join(d, 'dataset_desc.json'), 'w') as f:
            json.dump({'data_features': feats}, f)
        g = lcg_stream(11)
        lines = ['n1,n2,n3,k,label']
        for i in range(n):
            n1 = next(g) % 6
            n2 = (n1 + next(g) % 3) % 5 + 1
            n3 = (n2 * 2 + next(g) % 4) % 7
            lines.append(f'{n1},{n2},{n3},{"xyz"[(n1 + next(g) % 2) % 3]},{(n1 + n3 + next(g) % 3 // 2) % 2}')
    else:
        g = lcg_stream(5)
        lines = ['a,b,c,m,label']
        mv = ['x,y', 'y,z', 'z', 'x-w', 'w,y,z']
        for i in range(n):
            a = next(g) % 3
            b = (a + next(g) % 2) % 4
            c = (b * 2 + next(g) % 3) % 5
            lines.append(f'{a},{b},{c},"{mv[(a + c + next(g) % 2) % 5]}",{(a + c + next(g) % 3 // 2) % 2}')
    with open(os.path.join(d, 'data.csv'), 'w') as f:
        f.write('\n'.join(lines) + '\n')


CLI_CONFIGS = {
    'focus': ('plain', ['--data_source', 'csv-raw', '--feature_set_focus', 'c,a,b', '--target_ranking_only', 'False', '--heuristic', 'MI-numba-randomized']),
    'multivalue': ('plain', ['--data_source', 'csv-raw', '--feature_set_focus', 'm,a', '--explode_multivalue_features', 'm', '--target_ranking_only', 'False', '--heuristic', 'MI-numba-randomized']),
    'transformers': ('transformers', ['--data_source', 'ob-csv', '--transformers', 'minimal', '--target_ranking_only', 'False', '--heuristic', 'MI-numba-randomized']),
    'ratio': ('plain', ['--data_source', 'csv-raw', '--target_ranking_only', 'False', '--heuristic', 'MI-numba-randomized', '--mi_stratified_sampling_ratio', '0.6']),
    'subfeature_interactions': ('plain', ['--data_source', 'csv-raw', '--subfeature_mapping', 'a->b;c<->a', '--interaction_order', '2', '--feature_set_focus', 'a,b,c', '--target_ranking_only', 'True', '--heuristic', 'MI-numba-randomized']),
    'interactions_pearson': ('plain', ['--data_source', 'csv-raw', '--interaction_order', '2', '--target_ranking_only', 'True', '--heuristic', 'correlation-Pearson']),
    'capped': ('plain', ['--data_source', 'csv-raw', '--target_ranking_only', 'False', '--heuristic', 'MI-numba-randomized', '--combination_number_upper_bound', '5', '--minibatch_size', '10']),
    'subfeature_noise': ('plain', ['--data_source', 'csv-raw', '--subfeature_mapping', 'a->b', '--include_noise_baseline_features', 'True', '--target_ranking_only', 'True', '--heuristic', 'MI']),
}


def cli_run(job):
    cfg, seed, threads, rep, root = job
    ds, extra = CLI_CONFIGS[cfg]
    run_dir = os.path.join(root, f'{cfg}_s{seed}_t{threads}_r{rep}')
    os.makedirs(run_dir, exist_ok=True)
    out = os.path.join(run_dir, 'out')
    argv = [os.path.join(VERIF, 'mc', 'procs_runner.py'), '0.02', '--task', 'ranking', '--data_path', os.path.join(root, 'data_' + ds), '--output_folder', out,
            '--minibatch_size', '20', '--subsampling', '1', '--num_threads', str(threads), '--disable_tqdm', 'True', '--include_cardinality_in_feature_names', 'False'] + extra
    rc, so, se = procs.run_fresh(argv, {'PYTHONHASHSEED': seed}, cwd=run_dir, timeout=600)
    rows = pipeline.read_tsv(os.path.join(out, 'pairwise_ranks.tsv'))
    obs = sorted((r[0], r[1], round(float(r[2]), 9)) for r in rows[1:]) if rows else None
    return {'config': cfg, 'seed': seed, 'threads': threads, 'rep': rep, 'rc': rc, 'rows': obs, 'stderr': se[-600:] if rc != 0 else ''}


def _base_job(job):
    cfg, W = job
    return safe(run_schedule, cfg, W, ())


def _inline_job(cfg):
    c = CONFIGS[cfg]
    over = dict(c['over'])
    over['include_cardinality_in_feature_names'] = 'False'
    return safe(lambda: observe(pipeline.run_task(data_text(16, c['cols']), over)))


def base_or_violation(ctx, cfg, W):
    # in a child that may die or hang: the configurations include compiled code paths (sampling ratio < 1)
    tag, val = isolated(_base_job, (cfg, W), timeout=300)
    if tag == 'harness':
        raise HarnessError(val)
    if tag != 'ok':
        ctx.stats.violation({'kind': 'schedule', 'config': cfg, 'W': W, 'schedule': []}, f'{cfg}: the process running the ranking task under the sequential schedule (W={W}) ' + ('did not terminate' if tag == 'timeout' else f'died with status {val}'), {'kind': 'crash', 'config': cfg})
        return None
    ok, res = val
    if not ok:
        ctx.stats.violation({'kind': 'schedule', 'config': cfg, 'W': W, 'schedule': []}, f'{cfg}: ranking task raised {res} under the sequential schedule with W={W}', {'kind': 'exception', 'config': cfg})
        return None
    return res


def run(ctx):
    # (i) virtual pool
    jobs = []
    plan = []
    limit = 20000 if ctx.thorough else 1500
    bases = {}
    for cfg in ('target', 'ratio', 'capped5', 'coverage_scaled', 'noise', 'pairwise'):
        for W in (1, 2, 3):
            res0 = base_or_violation(ctx, cfg, W)
            if res0 is None:
                continue
            base, k, _ = res0
            bases[(cfg, W)] = base
            if W > 1 and (cfg, 1) in bases and bases[(cfg, 1)]['pairwise'] != base['pairwise']:
                ctx.stats.violation({'kind': 'schedule', 'config': cfg, 'W': W, 'schedule': []}, f'{cfg}: the sequential result with a pool of {W} workers differs from the one-worker result', {'kind': 'pool_size_dependent', 'config': cfg})
            n_all = sum(1 for _ in itertools.islice(vpool.schedules(k, W), limit + 1))
            if n_all <= limit:
                scheds = list(vpool.schedules(k, W))
                mode = 'complete'
            else:
                # iterative deviation bounding: every schedule with at most `bound` chunks moved off worker 0
                bound = 3 if ctx.thorough else 2
                scheds = list(bounded_schedules(k, W, bound))
                mode = f'deviations<={bound}'
            if W >= 2:
                alt = (0, 1) * (k // 2 + 1)
                scheds += [('lifo', 0, alt[:k]), ('rotate', 0, alt[:k]), ('fifo', 1, ()), ('fifo', 3, alt[:k]), ('lifo', 2, ())]
            plan.append((cfg, W, k, len(scheds), mode))
            jobs += [(cfg, W, scheds[i::16], base) for i in range(16) if scheds[i::16]]
    for cfg in CONFIGS:
        c = CONFIGS[cfg]
        over = dict(c['over'])
        over['include_cardinality_in_feature_names'] = 'False'
        tag_i, val_i = isolated(_inline_job, cfg, timeout=300)
        ok_i, inl = val_i if tag_i == 'ok' else (False, f'process ended abnormally ({tag_i} {val_i})')
        r1 = base_or_violation(ctx, cfg, 1)
        if not ok_i or r1 is None:
            if not ok_i:
                ctx.stats.violation({'kind': 'schedule', 'config': cfg, 'W': 1, 'schedule': [], 'inline': True}, f'{cfg}: ranking task raised {inl} with the in-process pool', {'kind': 'exception', 'config': cfg})
            continue
        v1 = r1[0]
        ctx.stats.count('evaluations')
        if inl != v1:
            ctx.stats.violation({'kind': 'schedule', 'config': cfg, 'W': 1, 'schedule': [], 'inline': True},
                                f'{cfg}: one isolated worker process gives a result different from in-process evaluation (process-local state leaks into the scores)', {'kind': 'worker_state_dependent', 'config': cfg})
    b1 = base_or_violation(ctx, 'target', 1)
    base1 = b1[0] if b1 else None
    for W in (2, 3):
        bw = base_or_violation(ctx, 'target', W) if base1 else None
        if bw and bw[0]['pairwise'] != base1['pairwise']:
            ctx.stats.violation({'kind': 'schedule', 'config': 'target', 'W': W, 'schedule': []}, f'sequential result with W={W} differs from W=1', {'kind': 'pool_size_dependent'})
    for st in pmap(_sched_job, jobs, job_timeout=600):
        ctx.stats.merge(st)
    ctx.stats.sample({'kind': 'schedule', 'config': 'target', 'W': 3, 'schedule': [0, 1, 2, 0, 1, 1, 2, 0]})
    ctx.stats.sample({'kind': 'cli', 'config': 'focus', 'seed': 1, 'threads': 2, 'ref_seed': 0, 'ref_threads': 1})
    ctx.extra['virtual_pool_plan'] = [{'config': c, 'W': w, 'chunks': k, 'schedules': n, 'mode': m} for c, w, k, n, m in plan]
    for cfg in ('target', 'ratio', 'capped5', 'coverage_scaled', 'pairwise', 'noise'):
        if len(ctx.stats.sets['outcomes_' + cfg]) > 1 and not ctx.stats.violations:
            raise HarnessError('outcome count > 1 without violation')

    # (ii) fresh processes
    root = scratch_dir('c09')
    try:
        for ds in ('plain', 'transformers'):
            write_dataset(os.path.join(root, 'data_' + ds), ds)
        seeds = list(range(8)) if ctx.thorough else [0, 1, 2]
        threads = [1, 2, 4, 8, 16] if ctx.thorough else [1, 2, 4]
        cj = []
        for cfg in CLI_CONFIGS:
            for s in seeds:
                for t in threads:
                    cj.append((cfg, s, t, 0, root))
            reps = [(s, t) for s in seeds for t in threads] if ctx.thorough else [(seeds[0], threads[-1])]
            for s, t in reps:
                cj.append((cfg, s, t, 1, root))
        results = procs.run_many(cj, cli_run, workers=8)
        by = {}
        for r in results:
            ctx.stats.count('evaluations')
            ctx.stats.count('fresh_process_runs')
            ctx.stats.count('traces_validated')
            ctx.stats.count('nontrivial')
            case = {'kind': 'cli', 'config': r['config'], 'seed': r['seed'], 'threads': r['threads']}
            if r['rc'] != 0 or r['rows'] is None:
                ctx.stats.violation(case, f'CLI run failed rc={r["rc"]}: {r["stderr"][-300:]}', {'kind': 'cli_failed', 'config': r['config']})
                continue
            by.setdefault(r['config'], []).append(r)
        for cfg, rs in by.items():
            ref = rs[0]
            ctx.stats.see('cli_outcomes_' + cfg, json.dumps(ref['rows']))
            for r in rs[1:]:
                ctx.stats.see('cli_outcomes_' + cfg, json.dumps(r['rows']))
                if r['rows'] != ref['rows']:
                    d = [(x, y) for x, y in zip(r['rows'], ref['rows']) if x != y][:2]
                    same_seed = r['seed'] == ref['seed']
                    kind = 'threads_or_rerun_dependent' if same_seed else 'hashseed_dependent'
                    ctx.stats.violation({'kind': 'cli', 'config': cfg, 'seed': r['seed'], 'threads': r['threads'], 'ref_seed': ref['seed'], 'ref_threads': ref['threads']},
                                        f'{cfg}: pairwise_ranks.tsv with PYTHONHASHSEED={r["seed"]} --num_threads {r["threads"]} differs from seed {ref["seed"]} / {ref["threads"]} threads: {d}',
                                        {'kind': kind, 'config': cfg})
        ctx.extra['cli_grid'] = {'seeds': seeds, 'threads': threads, 'configs': list(CLI_CONFIGS), 'runs': len(cj)}
    finally:
        rm_scratch(root)
    if ctx.stats.n['nontrivial'] < 50:
        raise HarnessError('vacuous')


def eval_case(case):
    if case['kind'] == 'schedule':
        base, _, _ = run_schedule(case['config'], case['W'], ())
        if case['W'] > 1 and not case['schedule']:
            base = run_schedule(case['config'], 1, ())[0]
        if case.get('inline'):
            c = CONFIGS[case['config']]
            over = dict(c['over'])
            over['include_cardinality_in_feature_names'] = 'False'
            base = observe(pipeline.run_task(data_text(16, c['cols']), over))
        sc = case['schedule']
        if sc and isinstance(sc[0], str):
            ob, _, _ = run_schedule(case['config'], case['W'], tuple(sc[2]), sc[0], sc[1])
        else:
            ob, _, _ = run_schedule(case['config'], case['W'], sc)
        return [] if ob == base else [f'schedule {case["schedule"]} gives a result different from the sequential schedule']
    root = scratch_dir('c09r')
    try:
        for ds in ('plain', 'transformers'):
            write_dataset(os.path.join(root, 'data_' + ds), ds)
        a = cli_run((case['config'], case['seed'], case['threads'], 0, root))
        b = cli_run((case['config'], case.get('ref_seed', 0), case.get('ref_threads', 1), 1, root))
        if a['rc'] != 0 or b['rc'] != 0:
            return [f'CLI failed: {a["stderr"][-200:]} {b["stderr"][-200:]}']
        return [] if a['rows'] == b['rows'] else ['pairwise_ranks.tsv differs between the two runs']
    finally:
        rm_scratch(root)
