"""C06 - the rank graph covers exactly the requested pairs, in both orientations."""
from __future__ import annotations

import itertools
import warnings
from collections import Counter

from mc import harness, seqdiff
from mc.common import HarnessError, Stats, pmap, safe

PROPERTY = 'C06'
LEVEL = 'exploration'
RULE = ('mixed_rank_graph on a 3-row frame for every column set of 1..6 columns (every label position, every plain / " AND_REL " naming pattern of the other '
        'columns), one family per size 7..40 x every label position, x target-only/pairwise x heuristic {MI-numba-randomized, MI-numba-3mr, Constant} x every cap '
        'from 1 to #candidates+1; column-name sets whose hyphen/space joins coincide or that contain the label\'s name; plus one 150-column 3MR frame that exercises the 10^4 clamp; sequence differential over <= 3 successive batches with DIFFERENT column sets in one process state. Oracle on triplet_scores: mirror multiplicity, subset / equality '
        'with the specified pair set, cap respected, names are columns. distinct_nontrivial = (column set, mode, heuristic, cap) cases with >= 3 columns')
ASSUMPTIONS = ['candidate lists may contain a pair twice (the diagonal in pairwise mode): the oracle is on sets of pairs and on mirror multiplicity only',
               'when the cap is smaller than the candidate list only "at most cap, at least one, subset of the specified set" is required']

HEUR = ['MI-numba-randomized', 'MI-numba-3mr', 'Constant']


def col_names(n, lpos, pattern):
    """n columns, label at lpos; bit i of pattern -> i-th non-label column is a relation column"""
    names = []
    k = 0
    for i in range(n):
        if i == lpos:
            names.append('label')
        else:
            names.append(f'r{k} AND_REL q{k}' if pattern >> k & 1 else f'c{k}')
            k += 1
    return names


def specified_pairs(names, pairwise, heuristic):
    """(set of unordered pairs as sorted tuples, length of the candidate list incl. duplicates)"""
    cols = list(names)
    if '3mr' in heuristic:
        rel = [c for c in cols if ' AND_REL ' in c]
        non = [c for c in cols if ' AND_REL ' not in c]
        pairs = {tuple(sorted(p)) for p in itertools.combinations_with_replacement(non, 2)}
        pairs |= {tuple(sorted((c, 'label'))) for c in rel}
        listlen = len(list(itertools.combinations_with_replacement(non, 2))) + len(rel)
    elif pairwise:
        pairs = {tuple(sorted(p)) for p in itertools.combinations_with_replacement(cols, 2)}
        listlen = len(pairs)
    else:
        pairs = {tuple(sorted((c, 'label'))) for c in cols}
        listlen = len(pairs)
    if pairwise:
        listlen += sum(1 for c in cols if c != 'label')
        if '3mr' in heuristic:
            pairs |= {(c, c) for c in cols if c != 'label'}
    return pairs, listlen


def run_graph(names, heuristic, pairwise, cap, ref_json='', workers=1):
    import pandas as pd
    from outrank import core_ranking as cr
    harness.reset_state()
    df = pd.DataFrame({c: [str((i * (j + 2)) % 3) for i in range(3)] for j, c in enumerate(names)})
    args = harness.make_args(heuristic=heuristic, target_ranking_only='False' if pairwise else 'True', combination_number_upper_bound=cap, reference_model_JSON=ref_json)
    if workers > 1:
        from mc import vpool
        pool = vpool.VirtualPool(workers, tuple(i % workers for i in range(64)))
    else:
        pool = harness.InlinePool()
    with warnings.catch_warnings():
        warnings.simplefilter('ignore')
        res = cr.mixed_rank_graph(df, args, pool, harness.NullBar())
    return res.triplet_scores, args


def judge(names, heuristic, pairwise, cap, ref_json='', workers=1):
    ok, res = safe(run_graph, names, heuristic, pairwise, cap, ref_json, workers)
    if not ok:
        return [({'kind': 'exception'}, f'mixed_rank_graph raised {res}')]
    trip, args = res
    fails = []
    spec, listlen = specified_pairs(names, pairwise, heuristic)
    eff_cap = min(cap, 10 ** 4) if '3mr' in heuristic else cap
    cnt = Counter((a, b, float(s)) for a, b, s in trip)
    unknown = [x for a, b, _ in trip for x in (a, b) if x not in names]
    if unknown:
        fails.append(({'kind': 'unknown_column'}, f'rows mention columns outside the frame: {sorted(set(unknown))[:3]}'))
    got = {tuple(sorted((a, b))) for a, b, _ in trip}
    if heuristic == 'Constant':
        if any(s != 0.0 for _, _, s in trip):
            fails.append(({'kind': 'constant_nonzero'}, 'Constant heuristic emitted a non-zero score'))
        pc = Counter(tuple(sorted((a, b))) for a, b, _ in trip)
    else:
        for (a, b, s), k in cnt.items():
            if a != b and cnt.get((b, a, s), 0) != k:
                fails.append(({'kind': 'mirror'}, f'({a},{b},{s}) occurs {k}x but its mirror {cnt.get((b, a, s), 0)}x'))
                break
            if a == b and k % 2 != 0:
                fails.append(({'kind': 'mirror'}, f'self pair ({a},{a},{s}) occurs {k}x (odd): one orientation missing'))
                break
    if not got <= spec:
        fails.append(({'kind': 'extra_pairs'}, f'pairs outside the specified set: {sorted(got - spec)[:4]}'))
    if len(got) > eff_cap:
        fails.append(({'kind': 'cap_exceeded'}, f'{len(got)} distinct pairs evaluated with cap {eff_cap}'))
    if len(got) < 1 and spec:
        fails.append(({'kind': 'nothing'}, 'no pair evaluated'))
    if eff_cap >= listlen and got != spec:
        fails.append(({'kind': 'missing_pairs'}, f'cap {eff_cap} >= {listlen} candidates but pairs are missing: {sorted(spec - got)[:4]}'))
    elif eff_cap < listlen:
        # at least min(cap, #distinct) - (#duplicated diagonal entries) distinct pairs must be present
        dup = listlen - len(spec)
        if len(got) < min(eff_cap, len(spec)) - dup:
            fails.append(({'kind': 'too_few'}, f'only {len(got)} distinct pairs for cap {eff_cap} and {len(spec)} specified pairs'))
    return fails


def _job(job):
    st = Stats()
    for names in job:
        for heuristic in HEUR:
            for pairwise in (False, True):
                spec, listlen = specified_pairs(names, pairwise, heuristic)
                caps = range(1, listlen + 2) if len(names) <= 6 else (5, listlen - 1, listlen, 2 ** 15)
                for cap in caps:
                    if cap < 1:
                        continue
                    st.count('evaluations')
                    if len(names) >= 3:
                        st.count('nontrivial')
                    for sig, msg in judge(names, heuristic, pairwise, cap):
                        st.violation({'columns': names, 'heuristic': heuristic, 'pairwise': pairwise, 'cap': cap}, msg,
                                     dict(sig, heuristic=heuristic, pairwise=pairwise))
                    if cap == listlen and heuristic == 'MI-numba-randomized' and len(names) <= 5:
                        # the same request served by pools of 2, 3 and 4 workers (pair counts that are and are not multiples of the pool size)
                        for workers in (2, 3):
                            st.count('evaluations')
                            for sig, msg in judge(names, heuristic, pairwise, cap, '', workers):
                                st.violation({'columns': names, 'heuristic': heuristic, 'pairwise': pairwise, 'cap': cap, 'workers': workers}, f'pool of {workers} workers: ' + msg,
                                             dict(sig, heuristic=heuristic, pairwise=pairwise, workers=True))
    if job:
        st.sample({'columns': job[-1], 'heuristic': 'MI-numba-3mr', 'pairwise': True, 'cap': 3})
    return st


def _clamp(_):
    st = Stats()
    names = [f'c{i:03d}' for i in range(149)] + ['label']
    for cap in (2 ** 15,):
        for heuristic in ('MI-numba-3mr', 'Constant'):      # the 10^4 clamp belongs to the 3MR heuristics only
            st.count('evaluations')
            st.count('nontrivial')
            st.count('clamp_cases')
            for sig, msg in judge(names, heuristic, True, cap):
                st.violation({'columns': names, 'heuristic': heuristic, 'pairwise': True, 'cap': cap}, msg, dict(sig, clamp=True))
    return st


NAME_SETS = [['BRAND_RELEVANCE', 'a', 'xAND_RELy', 'label', 'r0 AND_REL q0'], ['user', 'user-type', 'type-id', 'id', 'label'], ['label', 'a-b', 'a', 'b', 'a-b-c', 'c'], ['xlabel', 'label2', 'label', 'la'], ['a AND b', 'b', 'a', 'label', 'a AND b AND c']]
SEQ_SETS = [(['a', 'b', 'label'], 'label'), (['label', 'c'], 'label'), (['a', 'r0 AND_REL q0', 'label', 'b'], 'label'), (['d', 'label', 'a', 'e', 'b'], 'label'), (['label'], 'label'),
            (['a', 'y', 'label'], 'label'), (['a', 'y', 'label'], 'y'), (['a', 'r0 AND_REL q0', 'y', 'label'], 'y')]   # same layout ranked against another label column


def seq_call(x):
    (names, label), heuristic, pairwise, cap = x
    import pandas as pd
    from outrank import core_ranking as cr
    df = pd.DataFrame({c: [str((i * (j + 2)) % 3) for i in range(3)] for j, c in enumerate(names)})
    args = harness.make_args(heuristic=heuristic, target_ranking_only='False' if pairwise else 'True', combination_number_upper_bound=cap, label_column=label)
    with warnings.catch_warnings():
        warnings.simplefilter('ignore')
        res = cr.mixed_rank_graph(df, args, harness.InlinePool(), harness.NullBar())
    return sorted((a, b, round(float(s), 7)) for a, b, s in res.triplet_scores)


def seq_menu(job):
    heuristic, pairwise = job
    return [(names, heuristic, pairwise, 2 ** 15) for names in SEQ_SETS]


def _seqdiff(job):
    st = Stats()
    seqdiff.run(seq_call, seq_menu(job), 3, st, lambda seq, pos: {'kind': 'seqdiff', 'job': list(job), 'seq': list(seq)}, {'kind': 'history_dependent', 'heuristic': job[0]})
    return st


def _refjson(_):
    """a reference-model JSON given together with a NON-prior heuristic must not change the set of evaluated pairs"""
    import json
    import os
    from mc.common import scratch_dir, rm_scratch
    st = Stats()
    d = scratch_dir('c06j')
    try:
        path = os.path.join(d, 'model.json')
        with open(path, 'w') as f:
            json.dump({'desc': {'features': ['f0', 'f1', 'f0,f1'], 'fields': ['f2']}}, f)
        for names in (['f0', 'f1', 'a', 'label'], ['label', 'f0', 'b', 'f1 AND f0'], ['a', 'f0', 'label']):
            for heuristic in HEUR:
                for pairwise in (False, True):
                    for cap in (2, 2 ** 15):
                        st.count('evaluations')
                        st.count('nontrivial')
                        st.count('reference_json_cases')
                        for sig, msg in judge(names, heuristic, pairwise, cap, path):
                            st.violation({'columns': names, 'heuristic': heuristic, 'pairwise': pairwise, 'cap': cap, 'ref_json': True}, 'with a reference model JSON: ' + msg, dict(sig, ref_json=True))
    finally:
        rm_scratch(d)
    return st


def _dispatch(item):
    k, job = item
    if k == 'refjson':
        return _refjson(job)
    if k == 'seqdiff':
        return _seqdiff(job)
    return _job(job) if k == 'sets' else _clamp(job)


def run(ctx):
    sets = []
    for n in range(1, 7):
        for lpos in range(n):
            for pattern in range(1 << (n - 1)):
                sets.append(col_names(n, lpos, pattern))
    big = []
    sizes = range(7, 41) if ctx.thorough else (7, 8, 12, 17, 25, 40)
    for n in sizes:
        for lpos in range(n):
            big.append(col_names(n, lpos, 0b1001 if n % 2 else 0))
    jobs = [('sets', sets[i::48]) for i in range(48)] + [('sets', big[i::32]) for i in range(32)] + [('clamp', None)]
    jobs += [('seqdiff', (h, pw)) for h in HEUR for pw in (False, True)]
    jobs.append(('sets', NAME_SETS))
    jobs.append(('refjson', None))
    for st in pmap(_dispatch, [j for j in jobs if j[0] in ('clamp', 'seqdiff', 'refjson') or j[1]]):
        ctx.stats.merge(st)
    ctx.extra['small_column_sets'] = len(sets)
    ctx.extra['large_column_sets'] = len(big)
    if ctx.stats.n['nontrivial'] < 1000:
        raise HarnessError('vacuous')


def eval_case(case):
    if case.get('kind') == 'seqdiff':
        return seqdiff.replay(seq_call, seq_menu(tuple(case['job'])), case['seq'])
    if case.get('ref_json'):
        return [v['what'] for v in _refjson(None).violations]
    return [m for _, m in judge(case['columns'], case['heuristic'], case['pairwise'], case['cap'], '', case.get('workers', 1))]
