"""C16 - line parsers keep every field in its column and never mis-align."""
from __future__ import annotations

import csv
import io
import itertools
import os

from mc import harness, seqdiff
from mc.common import HarnessError, Stats, pmap, safe, scratch_dir, rm_scratch

PROPERTY = 'C16'
LEVEL = 'exploration'
RULE = ('every table of 1..3 columns x 1 row over the cell alphabet {"", a, " ", " a ", "a,b", \'"\', \'a"b\', a|b, ü, C:\\t\\n (backslashes)} rendered (a) by csv.writer '
        '(QUOTE_MINIMAL / QUOTE_ALL, \\n / \\r\\n) for csv-raw and ob-csv, (b) tab-joined for ob-raw-dump, and parsed by generic_line_parser; '
        '(c) VW lines: every subset and order of 3 namespaces (+ an undeclared one), 0..3 prefixed tokens each, label with/without weight and tag, '
        'surplus spaces; (d) every namespace-map file of <= 3 lines over 3 ids x 4 type spellings; (e) the field-count test of the streaming '
        'loop on 2-line files with one field removed/added; (f) the ob-vw source end to end (namespace map + gzipped file -> dataset description -> streaming loop); (g) sequence differential: every sequence of <= 3 lines from an 8-line menu parsed in one process state. distinct_nontrivial = distinct rendered lines with >= 2 fields')
ASSUMPTIONS = ['csv.writer is the trusted renderer of well-formed CSV', 'cells contain no line breaks and (for TSV) no tab, VW tokens contain no space, "|" or "-"',
               'VW: for tokens after the first both readings of "without their two-character prefix" are accepted (verbatim or stripped)']

CELLS = ['', 'a', ' ', ' a ', 'a,b', '"', 'a"b', 'a|b', 'ü', 'C:\\t\\n']   # the last cell holds backslashes (no escape processing may happen)
TSV_CELLS = ['', 'a', ' ', ' a ', 'a,b', '"', 'a"b', 'a|b', 'ü', 'C:\\t\\n']   # the last cell holds backslashes (no escape processing may happen)


def glp():
    from outrank.core_utils import generic_line_parser
    return generic_line_parser


def render_csv(row, quoting, eol):
    buf = io.StringIO()
    csv.writer(buf, quoting=quoting, lineterminator=eol).writerow(row)
    return buf.getvalue()


def check_line(source, line, delim, expect, st, case, fw=None, header=None):
    args = harness.make_args(data_source=source)
    ok, got = safe(glp(), line, delim, args, fw, header)
    st.count('evaluations')
    if not ok:
        st.violation(case, f'{source}: parser raised {got} on {line!r}', {'kind': 'exception', 'source': source})
        return
    if list(got) != list(expect):
        st.violation(case, f'{source}: {line!r} parsed to {got!r}, expected {expect!r}', {'kind': 'fields', 'source': source})


def _tables(job):
    ncols, lo, hi = job
    st = Stats()
    rows = list(itertools.product(CELLS, repeat=ncols))[lo:hi]
    for row in rows:
        row = list(row)
        for qn, quoting in (('minimal', csv.QUOTE_MINIMAL), ('all', csv.QUOTE_ALL)):
            for eol in ('\n', '\r\n'):
                line = render_csv(row, quoting, eol)
                for source in ('csv-raw', 'ob-csv'):
                    # the CSV formats are comma-separated by definition: the result must not depend on the delimiter argument a caller happens to pass
                    for delim in (',', '\t', None):
                        check_line(source, line, delim, row, st, {'kind': 'csv', 'row': row, 'quoting': qn, 'eol': eol, 'source': source, 'delimiter': delim})
                if ncols >= 2:
                    st.count('nontrivial')
        line = '\t'.join(row) + '\n'
        check_line('ob-raw-dump', line, '\t', row, st, {'kind': 'tsv', 'row': row})
        if ncols >= 2:
            st.count('nontrivial')
    if lo == 0:
        st.sample({'kind': 'tsv', 'row': rows[-1]})
        st.sample({'kind': 'csv', 'row': rows[len(rows) // 2], 'quoting': 'minimal', 'eol': '\n', 'source': 'csv-raw'})
    return st


# ---------------- VW ------------------------------------------------------------------------------

FW = {'AE': 'f1', 'AK': 'f2', 'As': 'f3'}
HEADER = ['label', 'f1', 'f2', 'f3']
TOKVALS = ['x', '12', 'a\u00a0b']   # the third token contains a no-break space (not a token separator)
LABELS = [('1', '1'), ('-1 0.5', '-1'), ("0 2 'tag", '0')]


def vw_line(label_txt, nss, wide):
    """nss: list of (ns, n_tokens).  wide: surplus spaces"""
    sp = '  ' if wide else ' '
    parts = [label_txt + (sp if wide else ' ')]
    for ns, k in nss:
        toks = [ns + TOKVALS[i] for i in range(k)]
        parts.append((' ' if wide else '') + ns + ''.join(sp + t for t in toks) + (sp if wide else ' '))
    return '|'.join(parts).rstrip(' ') + ('  \n' if wide else '\n')


def vw_expect_ok(got, label, nss):
    if len(got) != len(HEADER):
        return f'length {len(got)} != header length {len(HEADER)}'
    if got[0] != label:
        return f'label {got[0]!r} != first token {label!r}'
    present = {ns: k for ns, k in nss if ns in FW}
    for ns, feat in FW.items():
        cell = got[HEADER.index(feat)]
        if ns not in present:
            if cell is not None:
                return f'absent namespace {ns} reported as {cell!r}, expected missing (None)'
            continue
        k = present[ns]
        if cell is None:
            return f'present namespace {ns} reported missing'
        toks = [ns + TOKVALS[i] for i in range(k)]
        if k == 0:
            if cell != '':
                return f'namespace {ns} without tokens gave {cell!r}'
            continue
        parts = cell.split('-')
        if len(parts) != k:
            return f'namespace {ns}: {cell!r} has {len(parts)} tokens, expected {k}'
        if parts[0] != toks[0][2:]:
            return f'namespace {ns}: first token {parts[0]!r}, expected {toks[0][2:]!r}'
        for p, t in zip(parts[1:], toks[1:]):
            if p not in (t, t[2:]):
                return f'namespace {ns}: token {p!r}, expected {t!r} or {t[2:]!r}'
    return None


def vw_cases():
    ids = list(FW) + ['ZZ']
    for r in range(0, 4):
        for combo in itertools.permutations(ids, r):
            if combo.count('ZZ') and r == 1:
                pass
            for counts in itertools.product(range(0, 4), repeat=r):
                yield list(zip(combo, counts))


def _vw(job):
    lo, hi = job
    st = Stats()
    cases = list(vw_cases())[lo:hi]
    for nss in cases:
        for label_txt, label in LABELS:
            for wide in (False, True):
                line = vw_line(label_txt, nss, wide)
                case = {'kind': 'vw', 'label': label_txt, 'nss': [list(x) for x in nss], 'wide': wide}
                args = harness.make_args(data_source='ob-vw')
                ok, got = safe(glp(), line, None, args, dict(FW), list(HEADER))
                st.count('evaluations')
                if len(nss) >= 2:
                    st.count('nontrivial')
                if not ok:
                    st.violation(case, f'ob-vw: parser raised {got} on {line!r}', {'kind': 'exception', 'source': 'ob-vw'})
                    continue
                msg = vw_expect_ok(list(got), label, nss)
                if msg:
                    st.violation(case, f'ob-vw: {line!r} -> {got!r}: {msg}', {'kind': 'vw', 'msg': msg[:30]})
    if lo == 0:
        st.sample({'kind': 'vw', 'line': vw_line('1', [('AK', 2), ('AE', 1)], False)})
    return st


# ---------------- namespace maps ----------------------------------------------------------------

TYPES = ['f32', 'generic', None, '']


def ns_file_lines(spec):
    lines = []
    for (fid, feat), t in spec:
        if t is None:
            lines.append(f'{fid},{feat}')
        else:
            lines.append(f'{fid},{feat},{t}')
    return lines


def _nsmaps(_):
    from outrank.core_utils import parse_namespace
    st = Stats()
    d = scratch_dir('c16ns')
    try:
        ids = [('AE', 'f1'), ('AK', 'ad_id'), ('As', 'f_3')]   # feature names with and without underscores
        for r in range(0, 4):
            for chosen in itertools.permutations(ids, r):
                for types in itertools.product(TYPES, repeat=r):
                    spec = list(zip(chosen, types))
                    for trailing_nl in (True, False):
                        path = os.path.join(d, 'vw_namespace_map.csv')
                        with open(path, 'w') as f:
                            f.write('\n'.join(ns_file_lines(spec)) + ('\n' if trailing_nl and spec else ''))
                        ok, got = safe(parse_namespace, path)
                        st.count('evaluations')
                        st.count('nsmaps')
                        if r >= 2:
                            st.count('nontrivial')
                        case = {'kind': 'nsmap', 'lines': ns_file_lines(spec)}
                        if not ok:
                            st.violation(case, f'parse_namespace raised {got}', {'kind': 'exception', 'source': 'nsmap'})
                            continue
                        fset, mp = got
                        exp_map = {fid: feat for (fid, feat), _ in spec}
                        exp_f = {feat for (fid, feat), t in spec if t == 'f32'}
                        if dict(mp) != exp_map or list(mp) != list(exp_map):
                            st.violation(case, f'id->feature map {dict(mp)} != declared {exp_map}', {'kind': 'nsmap_map'})
                        if set(fset) != exp_f:
                            st.violation(case, f'float features {set(fset)} != declared {exp_f}', {'kind': 'nsmap_float'})
        st.sample({'kind': 'nsmap', 'lines': ['AE,f1,f32', 'AK,f2', 'As,f3,']})
    finally:
        rm_scratch(d)
    return st


# ---------------- field-count validity in the streaming loop ---------------------------------------

def stream_rows(source, header, lines, d, no_final_newline=False):
    """Run the real streaming loop with the batch scorer replaced by a recorder; returns (rows entering batches, invalid count)."""
    from outrank import core_ranking as cr
    from outrank.core_utils import BatchRankingSummary
    path = os.path.join(d, 'data.csv')
    with open(path, 'w', encoding='utf-8', newline='') as f:
        text = ''.join(lines)
        f.write(text[:-1] if (no_final_newline and text.endswith('\n')) else text)
    rec = []

    def recorder(line_tmp_storage, *a, **k):
        rec.extend([list(r) for r in line_tmp_storage])
        return BatchRankingSummary([], {}), {}, {}, {}

    log = harness.RecLogger()
    args = harness.make_args(data_source=source, minibatch_size=1, subsampling=1, heuristic='MI-numba-randomized')
    orig = cr.compute_batch_ranking
    cr.compute_batch_ranking = recorder
    try:
        with harness.in_dir(d):
            harness.reset_state()
            cr.estimate_importances_minibatches(path, list(header), None, set(), args=args, data_encoding='utf-8', cpu_pool=harness.InlinePool(),
                                                delimiter='\t' if source == 'ob-raw-dump' else ',', logger=log)
    finally:
        cr.compute_batch_ranking = orig
    inv = 0
    for m in log.msgs:
        if m.startswith('Detected '):
            inv = int(m.split()[1])
    return rec, inv


def _validity(job):
    st = Stats()
    d = scratch_dir('c16v')
    try:
        cells = ['', 'a', ' ', 'a,b', 'ü']
        for ncols in (2, 3):
            header = [f'c{i}' for i in range(ncols - 1)] + ['label']
            for source in ('csv-raw', 'ob-raw-dump'):
                sep = '\t' if source == 'ob-raw-dump' else ','
                for row in itertools.product(cells, repeat=ncols):
                    row = list(row)
                    for delta in (-1, 0, 1):
                        for extra in (['x'], ['']) if delta == 1 else ([None],):
                            if delta == -1:
                                cand = row[:-1]
                            elif delta == 1:
                                cand = row + extra
                            else:
                                cand = row
                            if not cand:
                                continue
                            good = ['g'] * ncols
                            if source == 'csv-raw':
                                lines = [render_csv(header, csv.QUOTE_MINIMAL, '\n'), render_csv(cand, csv.QUOTE_MINIMAL, '\n'), render_csv(good, csv.QUOTE_MINIMAL, '\n')]
                            else:
                                if any('\t' in c for c in cand):
                                    continue
                                lines = ['\t'.join(header) + '\n', '\t'.join(cand) + '\n', '\t'.join(good) + '\n']
                            case = {'kind': 'validity', 'source': source, 'header': header, 'line_fields': cand}
                            ok, res = safe(stream_rows, source, header, lines, d)
                            st.count('evaluations')
                            st.count('validity_cases')
                            st.count('nontrivial')
                            if not ok:
                                st.violation(case, f'streaming loop raised {res}', {'kind': 'exception', 'source': 'stream-' + source})
                                continue
                            rows, inv = res
                            if delta == 0:
                                # the same file without a final line terminator, the candidate line last
                                ok2, res2 = safe(stream_rows, source, header, [lines[0], lines[2], lines[1]], d, True)
                                st.count('evaluations')
                                if not ok2 or res2 != ([good, cand], 0):
                                    st.violation(dict(case, no_final_newline=True), f'{source}: file without a final newline, last line fields {cand!r}: rows entering batches {res2!r}, expected {[good, cand]!r}',
                                                 {'kind': 'validity_no_final_newline', 'source': source})
                            exp_rows = ([cand] if delta == 0 else []) + [good]
                            exp_inv = 0 if delta == 0 else 1
                            if rows != exp_rows or inv != exp_inv:
                                st.violation(case, f'{source}: line with fields {cand!r} under a {ncols}-column header: rows entering batches {rows!r} '
                                                   f'(expected {exp_rows!r}), invalid count {inv} (expected {exp_inv})', {'kind': 'validity', 'source': source})
    finally:
        rm_scratch(d)
    return st


def _vw_stream(_):
    """the ob-vw source end to end: namespace map file + gzipped VW file -> get_dataset_info -> streaming loop; the rows entering the mini-batches must be the
    per-line parses (every structure of the VW family, in one file), nothing shifted, nothing dropped"""
    import gzip
    from outrank import core_ranking as cr
    from outrank import core_utils as cu
    from outrank.core_utils import BatchRankingSummary
    st = Stats()
    d = scratch_dir('c16vw')
    try:
        with open(os.path.join(d, 'vw_namespace_map.csv'), 'w') as f:
            f.write('AE,f1,f32\nAK,f2\nAs,f3,\n')
        cases = [nss for i, nss in enumerate(vw_cases()) if i % 3 == 0]
        lines, meta = [], []
        for j, nss in enumerate(cases):
            label_txt, label = LABELS[j % len(LABELS)]
            lines.append(vw_line(label_txt, nss, j % 2 == 1))
            meta.append((label, nss))
        with gzip.open(os.path.join(d, 'data.vw.gz'), 'wt', encoding='utf-8') as f:
            f.write('1 |AE AEheader\n')        # the streaming loop treats the first line of every file as a header
            f.writelines(lines)
        args = harness.make_args(data_source='ob-vw', data_path=d, minibatch_size=1, subsampling=1, heuristic='MI-numba-randomized')
        ok, info = safe(cu.get_dataset_info, args)
        st.count('evaluations')
        if not ok:
            st.violation({'kind': 'vw_stream'}, f'get_dataset_info raised {info}', {'kind': 'exception', 'source': 'vw_stream'})
            return st
        if list(info.column_names) != HEADER or dict(info.fw_map) != FW or set(info.column_types) != {'f1'}:
            st.violation({'kind': 'vw_stream'}, f'dataset description {info.column_names} / {info.fw_map} / {info.column_types}', {'kind': 'vw_dataset_info'})
            return st
        rec = []

        def recorder(line_tmp_storage, *a, **k):
            rec.extend([list(r) for r in line_tmp_storage])
            return BatchRankingSummary([], {}), {}, {}, {}

        orig = cr.compute_batch_ranking
        cr.compute_batch_ranking = recorder
        try:
            with harness.in_dir(d):
                harness.reset_state()
                ok, r = safe(cr.estimate_importances_minibatches, info.data_path, list(info.column_names), info.fw_map, info.column_types, args=args, data_encoding=info.encoding,
                             cpu_pool=harness.InlinePool(), delimiter=info.col_delimiter, logger=harness.RecLogger())
        finally:
            cr.compute_batch_ranking = orig
        if not ok:
            st.violation({'kind': 'vw_stream'}, f'streaming loop raised {r}', {'kind': 'exception', 'source': 'vw_stream'})
            return st
        st.count('vw_stream_lines', len(lines))
        st.count('nontrivial', len(lines))
        if len(rec) != len(lines):
            st.violation({'kind': 'vw_stream'}, f'{len(rec)} rows entered the mini-batches, the file has {len(lines)} data lines', {'kind': 'vw_stream_count'})
            return st
        for got, (label, nss), line in zip(rec, meta, lines):
            msg = vw_expect_ok(list(got), label, nss)
            if msg:
                st.violation({'kind': 'vw_stream', 'line': line}, f'{line!r} entered its batch as {got!r}: {msg}', {'kind': 'vw_stream_row'})
                break
    finally:
        rm_scratch(d)
    return st


SEQ_LINES = [
    ('ob-vw', "1 |AE AEx AE12 |AK AKa_b |As Asx\n"),
    ('ob-vw', "-1 |AK AK12\n"),
    ('ob-vw', "0 |As Asa_b |ZZ ZZq\n"),
    ('ob-vw', "1\n"),
    ('csv-raw', 'a,"b,c",\n'),
    ('csv-raw', ',,\n'),
    ('ob-raw-dump', 'a\t\t b \n'),
    ('ob-raw-dump', '\t\t\n'),
]


def seq_call(x):
    source, line = x
    args = harness.make_args(data_source=source)
    return glp()(line, '\t' if source == 'ob-raw-dump' else ',', args, dict(FW), list(HEADER))


def _seqdiff(_):
    st = Stats()
    seqdiff.run(seq_call, SEQ_LINES, 3, st, lambda seq, pos: {'kind': 'seqdiff', 'seq': list(seq)}, {'kind': 'history_dependent'})
    return st


def _dispatch(item):
    k, job = item
    if k == 'seqdiff':
        return _seqdiff(job)
    if k == 'vw_stream':
        return _vw_stream(job)
    return {'tables': _tables, 'vw': _vw, 'ns': _nsmaps, 'validity': _validity}[k](job)


def run(ctx):
    jobs = [('tables', (1, 0, 10)), ('tables', (2, 0, 100))]
    jobs += [('tables', (3, lo, lo + 125)) for lo in range(0, 1000, 125)]
    nv = sum(1 for _ in vw_cases())
    jobs += [('vw', (lo, min(nv, lo + 200))) for lo in range(0, nv, 200)]
    jobs += [('ns', None), ('validity', None), ('seqdiff', None), ('vw_stream', None)]
    for st in pmap(_dispatch, jobs):
        ctx.stats.merge(st)
    ctx.extra['vw_structures'] = nv
    if ctx.stats.n['nontrivial'] < 1000:
        raise HarnessError('vacuous')


def eval_case(case):
    st = Stats()
    k = case['kind']
    if k == 'seqdiff':
        return seqdiff.replay(seq_call, SEQ_LINES, case['seq'])
    if k == 'vw_stream':
        return [v['what'] for v in _vw_stream(None).violations]
    if k == 'csv':
        q = csv.QUOTE_MINIMAL if case['quoting'] == 'minimal' else csv.QUOTE_ALL
        check_line(case['source'], render_csv(case['row'], q, case['eol']), case.get('delimiter', ','), case['row'], st, case)
    elif k == 'tsv':
        check_line('ob-raw-dump', '\t'.join(case['row']) + '\n', '\t', case['row'], st, case)
    elif k == 'vw':
        nss = [tuple(x) for x in case['nss']]
        label = dict(LABELS)[case['label']]
        line = vw_line(case['label'], nss, case['wide'])
        ok, got = safe(glp(), line, None, harness.make_args(data_source='ob-vw'), dict(FW), list(HEADER))
        if not ok:
            return [f'raised {got}']
        msg = vw_expect_ok(list(got), label, nss)
        return [f'{line!r} -> {got!r}: {msg}'] if msg else []
    elif k == 'nsmap':
        from outrank.core_utils import parse_namespace
        d = scratch_dir('c16r')
        try:
            path = os.path.join(d, 'm.csv')
            with open(path, 'w') as f:
                f.write('\n'.join(case['lines']) + '\n')
            fset, mp = parse_namespace(path)
            exp_map, exp_f = {}, set()
            for ln in case['lines']:
                p = ln.split(',')
                exp_map[p[0]] = p[1]
                if len(p) > 2 and p[2] == 'f32':
                    exp_f.add(p[1])
            out = []
            if dict(mp) != exp_map:
                out.append(f'map {dict(mp)} != {exp_map}')
            if set(fset) != exp_f:
                out.append(f'float set {set(fset)} != {exp_f}')
            return out
        finally:
            rm_scratch(d)
    elif k == 'validity':
        d = scratch_dir('c16r')
        try:
            header, cand, source = case['header'], case['line_fields'], case['source']
            good = ['g'] * len(header)
            if source == 'csv-raw':
                lines = [render_csv(x, csv.QUOTE_MINIMAL, '\n') for x in (header, cand, good)]
            else:
                lines = ['\t'.join(x) + '\n' for x in (header, cand, good)]
            rows, inv = stream_rows(source, header, lines, d)
            exp_rows = ([cand] if len(cand) == len(header) else []) + [good]
            exp_inv = 0 if len(cand) == len(header) else 1
            if rows != exp_rows or inv != exp_inv:
                return [f'rows {rows!r} expected {exp_rows!r}; invalid {inv} expected {exp_inv}']
            return []
        finally:
            rm_scratch(d)
    return [v['what'] for v in st.violations]
