"""C15 - frequency sketches err on one side only (count-min sketch, bounded exact counter)."""
from __future__ import annotations

import itertools
from collections import Counter

import numpy as np

from mc import explore
from mc.common import HarnessError, Stats, pmap, safe

PROPERTY = 'C15'
LEVEL = 'model_checking'
RULE = ('BFS over real CountMinSketch objects: event = add(item, weight) or batch_add(two items, weight), items {0,1,-1,2^40,"a","b"}, weights {0,1,3}, to total weight 6 (quick) / 8 '
        '(thorough); shapes depth 1..3 x width 1..4 with hash_seeds set to every residue combination plus uint32-edge seeds; state = (matrix, '
        'true weights). Large shapes (depth 1..8 x width {7,2^10,2^15}) on fixed 2000-update streams. BFS over real '
        'PrimitiveConstrainedCounter: two counters alive in one process (bounds b and b-1), 4 symbols, add / batch_add events addressed to either, bounds 0..5, all streams to length 5/6. Invariants after every transition for every item '
        'of the alphabet (also never-inserted ones). non-trivial = states with at least two distinct items inserted')
ASSUMPTIONS = ['integer weights only: the matrix is int32 and fractional weights are truncated by design (outside the alphabet)',
               'snapshot/restore of the sketch = copy of its matrix (its only mutable state besides the constant seeds)']

ITEMS = [0, 1, -1, 2 ** 40, 'a', 'b']
ITEMS_NEVER = [7, 'zz']     # queried, never inserted
BATCHES = [(0, 4), (1, 1), (5, 3)]   # index pairs into ITEMS fed through batch_add


def make_cms(depth, width, seeds):
    from outrank.algorithms.sketches.counting_cms import CountMinSketch
    c = CountMinSketch(depth, width)
    if seeds is not None:
        c.hash_seeds = np.array(seeds, dtype=np.uint32)
    return c


class CmsWorld:
    def __init__(self, depth, width, seeds, weights, max_total):
        self.cms = make_cms(depth, width, seeds)
        self.true = Counter()
        self.total = 0
        self.weights = weights
        self.max_total = max_total

    def enabled(self):
        evs = [[i, w] for i in range(len(ITEMS)) for w in self.weights if self.total + w <= self.max_total]
        # batch updates: two items at once with a common weight (encoded as i = 100 + pair index)
        for bi, (a, b) in enumerate(BATCHES):
            for w in self.weights:
                if w and self.total + 2 * w <= self.max_total:
                    evs.append([100 + bi, w])
        return evs

    def snapshot(self):
        return (self.cms.M.copy(), Counter(self.true), self.total)

    def restore(self, sn):
        self.cms.M = sn[0].copy()
        self.true = Counter(sn[1])
        self.total = sn[2]

    def canon(self):
        return (self.cms.M.tobytes(), tuple(self.true.get(k, 0) for k in ITEMS))

    def apply(self, ev):
        i, w = ev
        if i >= 100:
            items = [ITEMS[j] for j in BATCHES[i - 100]]
            ok, r = safe(self.cms.batch_add, items, w)
            if not ok:
                return [f'batch_add({items!r},{w}) raised {r}']
            for it in items:
                self.true[it] += w
                self.total += w
            return cms_invariants(self.cms, self.true, self.total)
        item = ITEMS[i]
        ok, r = safe(self.cms.add, item, w)
        if not ok:
            return [f'add({item!r},{w}) raised {r}']
        self.true[item] += w
        self.total += w
        return cms_invariants(self.cms, self.true, self.total)


def cms_invariants(cms, true, total):
    fails = []
    M = np.asarray(cms.get_matrix())
    rows = M.sum(axis=1).tolist()
    if any(r != total for r in rows):
        fails.append(f'row sums {rows} != total weight {total}')
    for item in ITEMS + ITEMS_NEVER:
        ok, q = safe(cms.query, item)
        if not ok:
            fails.append(f'query({item!r}) raised {q}')
            continue
        q = int(q)
        t = true.get(item, 0)
        if q < t:
            fails.append(f'query({item!r})={q} below true weight {t}')
        if q > total:
            fails.append(f'query({item!r})={q} above total weight {total}')
    return fails


def sig_cms(hist, ev, fails):
    f = fails[0]
    kind = 'under' if 'below' in f else ('over_total' if 'above' in f else ('row_sum' if 'row sums' in f else 'other'))
    return {'family': 'cms', 'kind': kind}


def shapes():
    out = []
    for depth in (1, 2, 3):
        for width in (1, 2, 3, 4):
            for seeds in itertools.product(range(width), repeat=depth):
                out.append((depth, width, list(seeds)))
    for depth, width in ((2, 3), (3, 4), (1, 2)):
        out.append((depth, width, [2 ** 31 - 2] * depth))
        out.append((depth, width, [2 ** 32 - 1] + [2 ** 32 - 2] * (depth - 1)))
    return out


def _cms_job(job):
    shape_list, max_total = job
    st = Stats()
    for depth, width, seeds in shape_list:
        mk = lambda: CmsWorld(depth, width, seeds, (0, 1, 3), max_total)
        closed, n, reached = explore.bfs(mk, max_depth=max_total + 2, stats=st, sig_of=sig_cms)
        st.count('nontrivial', max(0, n - 1 - len(ITEMS) * 3))
        st.count('cms_shapes')
        st.see('states_per_shape', n)
    d, w, s = shape_list[0]
    st.sample({'family': 'cms', 'depth': d, 'width': w, 'seeds': s, 'history': [[0, 1], [4, 3], [0, 1]]})
    return st


def _cms_lifetime(job):
    """ONE sketch object lives through every event sequence of length <= 3 (add / batch_add / the queries of the invariants in between):
    state kept inside the object besides its matrix (memoised answers, cached locations) is exercised, which snapshot/restore of the matrix cannot do"""
    depth, width, seeds = job
    st = Stats()
    probe = CmsWorld(depth, width, seeds, (0, 1, 3), 10 ** 9)
    events = [e for e in probe.enabled()]
    for seq in itertools.product(range(len(events)), repeat=3):
        w = CmsWorld(depth, width, seeds, (0, 1, 3), 10 ** 9)
        for pos, ei in enumerate(seq):
            fails = w.apply(events[ei])
            st.count('transitions')
            st.count('evaluations')
            st.count('lifetime_steps')
            if fails:
                st.violation({'family': 'cms', 'depth': depth, 'width': width, 'seeds': seeds, 'history': [events[i] for i in seq[:pos + 1]], 'lifetime': True}, '; '.join(fails[:3]),
                             {'family': 'cms_lifetime', 'kind': fails[0][:10]})
                break
    st.count('traces_validated')
    return st


def _cms_heavy(_):
    """weights far above 16 bits on a few items (cells must not wrap below the accumulated weight)"""
    st = Stats()
    for depth, width in ((1, 4), (3, 7), (6, 2 ** 15)):
        np.random.seed(depth)
        cms = make_cms(depth, width, None)
        true, total = Counter(), 0
        for step, (item, w) in enumerate([(0, 40000), ('a', 70000), (0, 40000), (1, 1), ('a', 1000000), (-1, 65536), (0, 3)]):
            ok, r = safe(cms.add, item, w)
            st.count('transitions')
            st.count('evaluations')
            st.count('heavy_updates')
            case = {'family': 'cms_heavy', 'depth': depth, 'width': width, 'step': step}
            if not ok:
                st.violation(case, f'add({item!r},{w}) raised {r}', {'family': 'cms_heavy', 'kind': 'exception'})
                break
            true[item] += w
            total += w
            fails = cms_invariants(cms, true, total)
            if fails:
                st.violation(case, '; '.join(fails[:3]), {'family': 'cms_heavy', 'kind': 'bounds'})
                break
    st.count('traces_validated')
    return st


def _cms_large(job):
    depth, width, seed = job
    st = Stats()
    np.random.seed(seed)
    cms = make_cms(depth, width, None)
    rs = np.random.RandomState(seed + 1)
    true, total = Counter(), 0
    pool = ITEMS + list(range(100, 140)) + [f's{i}' for i in range(20)]
    for step in range(2000):
        item = pool[rs.randint(len(pool))]
        w = int(rs.randint(0, 4))
        ok, r = safe(cms.add, item, w)
        st.count('transitions')
        if not ok:
            st.violation({'family': 'cms_large', 'depth': depth, 'width': width, 'seed': seed, 'step': step}, f'add raised {r}', {'family': 'cms_large', 'kind': 'exception'})
            break
        true[item] += w
        total += w
        if step % 50 == 49 or step < 20:
            fails = cms_invariants(cms, true, total)
            for it in list(true)[:80]:
                q = int(cms.query(it))
                if q < true[it] or q > total:
                    fails.append(f'query({it!r})={q} outside [{true[it]},{total}]')
            if fails:
                st.violation({'family': 'cms_large', 'depth': depth, 'width': width, 'seed': seed, 'step': step}, '; '.join(fails[:3]), {'family': 'cms_large', 'kind': 'bounds'})
                break
    st.count('evaluations')
    st.count('traces_validated')
    st.count('cms_large_streams')
    return st


# ---------------- bounded counter ---------------------------------------------------------------

SYMS = ['a', 'x' * 130 + 'p', 'x' * 130 + 'q', 1]   # two long strings that differ only after 130 characters


class CounterWorld:
    """two bounded counters alive in one process (the pipeline keeps one per feature); events address either one"""

    def __init__(self, bound, max_len):
        from outrank.algorithms.sketches.counting_counters_ordinary import PrimitiveConstrainedCounter
        self.cs = [PrimitiveConstrainedCounter(bound), PrimitiveConstrainedCounter(max(bound - 1, 0) if bound else 2)]
        self.bounds = [bound, max(bound - 1, 0) if bound else 2]
        self.exact = [Counter(), Counter()]
        self.n = 0
        self.max_len = max_len

    def enabled(self):
        if self.n >= self.max_len:
            return []
        return [[0, i] for i in range(len(SYMS))] + [[1, i] for i in range(2)] + [[0, 10], [1, 10]]

    def canon(self):
        return tuple((tuple(sorted((repr(k), v) for k, v in c.default_counter.items())), tuple(e.get(s, 0) for s in SYMS)) for c, e in zip(self.cs, self.exact))

    def apply(self, ev):
        which, i = ev
        c, ex, bound = self.cs[which], self.exact[which], self.bounds[which]
        if i == 10:
            # batch_add of two symbols; exactness is only required of item-by-item feeding, so the reference only bounds it
            ok, r = safe(c.batch_add, [SYMS[0], SYMS[1]])
            if not ok:
                return [f'batch_add raised {r}']
            ex[SYMS[0]] += 1
            ex[SYMS[1]] += 1
            self.batch_used = True
        else:
            v = SYMS[i]
            ok, r = safe(c.add, v)
            if not ok:
                return [f'add raised {r}']
            ex[v] += 1
        self.n += 1
        fails = []
        for w, (cc, ee, bb) in enumerate(zip(self.cs, self.exact, self.bounds)):
            dc = cc.default_counter
            if len(dc) > bb and not getattr(self, 'batch_used', False):
                fails.append(f'counter {w} tracks {len(dc)} keys, bound {bb}')
            for k, cnt in dc.items():
                if cnt > ee.get(k, 0):
                    fails.append(f'counter {w}: over-count of {k!r}: {cnt} > {ee.get(k, 0)}')
            if len(ee) < bb and dict(dc) != dict(ee):
                fails.append(f'counter {w} not exact although only {len(ee)} < bound {bb} distinct values seen: {dict(dc)} vs {dict(ee)}')
        return fails


def _counter_job(job):
    bound, max_len = job
    st = Stats()
    closed, n, reached = explore.bfs(lambda: CounterWorld(bound, max_len), max_depth=max_len + 1, stats=st,
                                     sig_of=lambda h, e, f: {'family': 'counter', 'kind': f[0][:12]})
    st.count('nontrivial', max(0, n - 1 - len(SYMS)))
    st.count('counter_bounds')
    st.violations = [dict(v, case=dict(v['case'], family='counter', bound=bound)) for v in st.violations]
    if not closed:
        st.count('not_closed')
    st.sample({'family': 'counter', 'bound': bound, 'history': [[0, 0], [1, 1], [0, 0], [0, 2]]})
    return st


def _dispatch(item):
    k, job = item
    return {'cms': _cms_job, 'large': _cms_large, 'counter': _counter_job, 'heavy': _cms_heavy, 'lifetime': _cms_lifetime}[k](job)


def run(ctx):
    max_total = 8 if ctx.thorough else 6
    sh = shapes()
    # warm the numba specialisations (int and str items) before forking
    c = make_cms(1, 2, [0])
    c.add(1, 1)
    c.add('a', 1)
    c.query('a')
    c.query(2 ** 40)
    groups = [sh[i::32] for i in range(32)]
    jobs = [('cms', (g, max_total)) for g in groups if g]
    widths = (7, 2 ** 10, 2 ** 15)
    jobs += [('large', (d, w, ctx.seed * 100 + d)) for d in range(1, 9) for w in widths]
    jobs += [('counter', (b, 6 if ctx.thorough else 5)) for b in range(0, 6)]
    jobs.append(('heavy', None))
    jobs += [('lifetime', (2, 3, [1, 2])), ('lifetime', (1, 4, [3])), ('lifetime', (3, 2, [0, 1, 1]))]
    for st in pmap(_dispatch, jobs):
        ctx.stats.merge(st)
    if ctx.stats.n.get('not_closed'):
        raise HarnessError('counter BFS did not close')
    ctx.extra['bounds'] = {'cms_total_weight': max_total, 'cms_shapes': len(sh), 'counter_len': 6 if ctx.thorough else 5}
    if ctx.stats.n['states'] < 1000:
        raise HarnessError('vacuous')


def eval_case(case):
    fam = case.get('family')
    if fam == 'cms_heavy':
        return [v['what'] for v in _cms_heavy(None).violations]
    if fam == 'cms_large':
        st = _cms_large((case['depth'], case['width'], case['seed']))
        return [v['what'] for v in st.violations]
    hist = case['history']
    out = []
    if fam == 'counter' or (hist and isinstance(hist[0], list) and len(hist[0]) == 2 and hist[0][0] in (0, 1) and 'depth' not in case and fam != 'cms'):
        for b in ([case['bound']] if 'bound' in case else range(0, 6)):
            w = CounterWorld(b, 99)
            fails = []
            for ev in hist:
                fails = w.apply(ev)
                if fails:
                    break
            out += [f'bound={b}: {f}' for f in fails]
        return out
    cfgs = [(case['depth'], case['width'], case['seeds'])] if 'depth' in case else shapes()
    for d, wd, seeds in cfgs:
        w = CmsWorld(d, wd, seeds, (0, 1, 3), 10 ** 9)
        fails = []
        for ev in hist:
            fails = w.apply(ev)
            if fails:
                break
        out += [f'depth={d} width={wd} seeds={seeds}: {f}' for f in fails]
        if len(out) > 5:
            break
    return out
