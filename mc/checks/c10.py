"""C10 - interaction features represent joint values faithfully."""
from __future__ import annotations

import itertools
import math

from mc import harness, est, seqdiff
from mc.common import HarnessError, Stats, pmap, safe, shards

PROPERTY = 'C10'
LEVEL = 'exploration'
RULE = ('compute_combined_features on every frame of 2 feature columns x 2 rows (quick) / x 3 rows (thorough) over the cell alphabet {"", 1, 11, 111, a, ab, b, ü, " "} '
        '(every prefix/suffix aliasing pattern), on 3- and 4-column frames built from every pair of different rows that alias under plain concatenation, orders 2..4, '
        'caps {1,2,large}; an int-typed family; a long-value family (65-character values differing only in their last character); a shape family (non-default row index, orders 1..5 on 3 features, cap 0, the 3MR relation pass); oracle: equality pattern of each " AND " column == equality pattern of the value tuples, originals untouched, '
        'count = min(cap, C(#features,k)), names in column order; a scoring family compares the interaction score with that of an explicit tuple column; one 300 000-tuple column (collision count of a hash narrower than 64 bits); sequence differential over <= 3 successive batches (same names and row count, other content). '
        'distinct_nontrivial = frames in which at least two rows differ in some constituent')
ASSUMPTIONS = ['64-bit hash collisions are outside the alphabet (excluded by the statement)']

CELLS = ['', '1', '11', '111', 'a', 'ab', 'b', 'ü', ' ']


def combine(columns, data_rows, order, cap, label_pos=None, index=None, is_3mr=False):
    """returns (frame_before_copy, frame_after)"""
    import pandas as pd
    from outrank import core_ranking as cr
    harness.reset_state()
    df = pd.DataFrame([list(r) for r in data_rows], columns=list(columns), index=index)
    before = df.copy(deep=True)
    args = harness.make_args(interaction_order=order, combination_number_upper_bound=cap, heuristic='MI-numba-3mr' if is_3mr else 'MI-numba-randomized')
    if is_3mr:
        out = cr.compute_combined_features(df, args, harness.NullBar(), True)
    else:
        out = cr.compute_combined_features(df, args, harness.NullBar())
    return before, df, out


def pattern(vals):
    seen = {}
    return tuple(seen.setdefault(v, len(seen)) for v in vals)


_LAST = [None, None]    # [arguments of the latest judge() call in this process, arguments of the one before it]


def hist(case):
    """a frame is judged in a process that has judged other frames before; a failure that depends on what an earlier call left behind
    (a cache keyed by column name, say) replays only together with that call, so the case records its predecessor"""
    if _LAST[1] is not None:
        case = dict(case, after=_LAST[1])
    return case


def judge(columns, rows, order, cap, index=None, is_3mr=False):
    _LAST[1], _LAST[0] = _LAST[0], {'columns': list(columns), 'rows': [list(r) for r in rows], 'order': order, 'cap': cap, 'index': index, 'is_3mr': is_3mr}
    ok, res = safe(combine, columns, rows, order, cap, None, index, is_3mr)
    if not ok:
        return [({'kind': 'exception'}, f'compute_combined_features raised {res}')]
    before, df_in, out = res
    fails = []
    feats = [c for c in columns if c != 'label']
    ncol = len(columns)
    # originals untouched (both the frame passed in and the leading columns of the result)
    if list(out.columns[:ncol]) != list(columns) or not out.iloc[:, :ncol].equals(before) or not df_in.equals(before):
        fails.append(({'kind': 'originals_changed'}, 'original columns were modified'))
    if out.shape[0] != len(rows) or list(out.index) != list(before.index):
        fails.append(({'kind': 'rows_changed'}, f'{out.shape[0]} rows (index {list(out.index)[:6]}) after the step, {len(rows)} (index {list(before.index)[:6]}) before'))
    new = list(out.columns[ncol:])
    join = ' AND_REL ' if is_3mr else ' AND '
    eff_order = 2 if is_3mr else order
    expected_n = min(cap, math.comb(len(feats), eff_order)) if order > 1 else 0
    if len(new) != expected_n:
        fails.append(({'kind': 'count'}, f'{len(new)} interaction columns appended, expected min(cap={cap}, C({len(feats)},{order}))={expected_n}'))
    valid_names = {join.join(c): c for c in itertools.combinations(feats, eff_order)}
    if len(set(new)) != len(new):
        fails.append(({'kind': 'names'}, f'duplicate interaction names {new}'))
    for name in new:
        if name not in valid_names:
            fails.append(({'kind': 'names'}, f'appended column {name!r} is not an order-{order} combination of {feats} in column order'))
            continue
        cons = valid_names[name]
        col = out[name].tolist()
        if len(col) != len(rows):
            fails.append(({'kind': 'length'}, f'{name}: {len(col)} values for {len(rows)} rows'))
            continue
        tuples = [tuple(str(r[columns.index(c)]) for c in cons) for r in rows]
        if pattern(col) != pattern(tuples):
            fails.append(({'kind': 'aliasing'}, f'{name}: values {col} have equality pattern {pattern(col)}, value tuples {tuples} have {pattern(tuples)}'))
    return fails


def _two_col(job):
    nrows, lo, hi = job
    st = Stats()
    allrows = list(itertools.product(CELLS, repeat=2))
    frames = itertools.islice(itertools.product(allrows, repeat=nrows), lo, hi)
    cols = ['x', 'y', 'label']
    for fr in frames:
        rows = [list(r) + [str(i % 2)] for i, r in enumerate(fr)]
        st.count('evaluations')
        if len(set(fr)) > 1:
            st.count('nontrivial')
        for sig, msg in judge(cols, rows, 2, 2 ** 15):
            st.violation(hist({'columns': cols, 'rows': rows, 'order': 2, 'cap': 2 ** 15}), msg, sig)
    if lo == 0:
        st.sample({'columns': cols, 'rows': [['1', '11', '0'], ['11', '1', '1']], 'order': 2, 'cap': 2 ** 15})
    return st


def aliasing_pairs(k):
    """all pairs of different rows over k columns that collide under plain concatenation of their cells"""
    by = {}
    for r in itertools.product(['', '1', '11', 'a', 'ab', 'b'], repeat=k):
        by.setdefault(''.join(r), []).append(r)
    out = []
    for v in by.values():
        out += list(itertools.combinations(v, 2))
    return out


def _multi_col(job):
    k, lo, hi = job
    st = Stats()
    cols = [f'c{i}' for i in range(k)]
    label_positions = (0, k)
    pairs = aliasing_pairs(k)[lo:hi]
    for ri, rj in pairs:
        for lp in label_positions:
            columns = list(cols)
            columns.insert(lp, 'label')
            rows = []
            for t, r in enumerate((ri, rj, ri)):
                r = list(r)
                r.insert(lp, str(t % 2))
                rows.append(r)
            for order in range(2, k + 1):
                for cap in (1, 2, 2 ** 15):
                    st.count('evaluations')
                    st.count('nontrivial')
                    for sig, msg in judge(columns, rows, order, cap):
                        st.violation(hist({'columns': columns, 'rows': rows, 'order': order, 'cap': cap}), msg, sig)
    return st


def _shapes(_):
    """frames with a non-default row index, orders with no possible combination, the 3MR relation pass with and without interactions"""
    st = Stats()
    cols = ['x', 'y', 'z', 'label']
    base = [['1', '11', 'a', '0'], ['11', '1', 'a', '1'], ['', 'ab', 'b', '0'], ['a', 'b', '', '1']]
    indexes = [None, [2, 0, 1, 3], ['r3', 'r1', 'r2', 'r0'], [10, 20, 30, 40]]
    for idx in indexes:
        for order in (1, 2, 3, 4, 5):
            for cap in (0, 1, 2 ** 15):
                for is_3mr in (False, True):
                    st.count('evaluations')
                    st.count('shape_cases')
                    st.count('nontrivial')
                    for sig, msg in judge(cols, base, order, cap, idx, is_3mr):
                        st.violation({'columns': cols, 'rows': base, 'order': order, 'cap': cap, 'index': idx, 'is_3mr': is_3mr}, msg, dict(sig, shapes=True))
    return st


def _four_cols(_):
    """four feature columns with pairwise different partitions, orders 2..4, all caps; then a SECOND batch in the same process state with a binding cap
    (the fair sampler reorders the candidates between batches; every column must still carry the values of the features in ITS name)"""
    st = Stats()
    cols = ['a', 'b', 'c', 'd', 'label']
    f1 = [['0', '0', '0', '0', '0'], ['0', '1', '0', '1', '1'], ['1', '0', '2', '1', '0'], ['1', '1', '2', '0', '1'], ['2', '0', '0', '2', '0'], ['2', '1', '1', '0', '1']]
    # for every feature column two rows that agree on all other features and differ only there (so that leaving a constituent out, or swapping one, changes the partition)
    for j in range(4):
        r = list(f1[1])
        r[j] = '9'
        f1.append(r)
    f2 = [[r[2], r[0], r[3], r[1], r[4]] for r in reversed(f1)]
    for order in (2, 3, 4):
        for cap in (1, 2, 3, 2 ** 15):
            st.count('evaluations')
            st.count('nontrivial')
            st.count('four_column_cases')
            for sig, msg in judge(cols, f1, order, cap):
                st.violation({'columns': cols, 'rows': f1, 'order': order, 'cap': cap}, msg, dict(sig, four=True))
            # second and third batch without resetting the process state
            for rows in (f2, f1):
                ok, res = safe(_combine_noreset, cols, rows, order, cap)
                st.count('evaluations')
                if not ok:
                    st.violation({'columns': cols, 'rows': rows, 'order': order, 'cap': cap, 'second_batch': True}, f'later batch raised {res}', {'kind': 'exception', 'four': True})
                    break
                bad = _patterns_ok(cols, rows, res)
                if bad:
                    st.violation({'columns': cols, 'rows': rows, 'order': order, 'cap': cap, 'second_batch': True}, 'later batch in the same process state: ' + bad, {'kind': 'aliasing_later_batch', 'four': True})
                    break
    return st


def _combine_noreset(columns, rows, order, cap):
    import pandas as pd
    from outrank import core_ranking as cr
    df = pd.DataFrame([list(r) for r in rows], columns=list(columns))
    args = harness.make_args(interaction_order=order, combination_number_upper_bound=cap, heuristic='MI-numba-randomized')
    return cr.compute_combined_features(df, args, harness.NullBar())


def _patterns_ok(columns, rows, out):
    for name in out.columns[len(columns):]:
        cons = name.split(' AND ')
        tuples = [tuple(str(r[columns.index(c)]) for c in cons) for r in rows]
        if pattern(out[name].tolist()) != pattern(tuples):
            return f'{name}: values have equality pattern {pattern(out[name].tolist())}, the value tuples of {cons} have {pattern(tuples)}'
    return ''


def _ints(_):
    st = Stats()
    cols = ['F1', 'F2', 'F3', 'label']
    for m in itertools.product([1, 11, 111, 2], repeat=3):
        rows = [[m[0], m[1], m[2], 0], [m[1], m[0], m[2], 1], [m[2], m[1], m[0], 0], [1, 2, 3, 1]]
        for order in (2, 3):
            st.count('evaluations')
            st.count('nontrivial')
            for sig, msg in judge(cols, rows, order, 2 ** 15):
                st.violation({'columns': cols, 'rows': rows, 'order': order, 'cap': 2 ** 15}, msg, dict(sig, ints=True))
    return st


def _scoring(_):
    """score of the interaction column == score of an explicit tuple column (through mixed_rank_graph)"""
    import pandas as pd
    from outrank import core_ranking as cr
    st = Stats()
    vals = ['1', '11', '', 'a']
    for xs in itertools.product(vals, repeat=4):
        ys = [vals[(vals.index(x) + i) % 4] for i, x in enumerate(xs)]
        lab = ['0', '1', '0', '1']
        rows = [[x, y, l] for x, y, l in zip(xs, ys, lab)]
        ok, res = safe(combine, ['x', 'y', 'label'], rows, 2, 2 ** 15)
        st.count('evaluations')
        if not ok:
            st.violation({'columns': ['x', 'y', 'label'], 'rows': rows, 'order': 2, 'cap': 2 ** 15}, f'raised {res}', {'kind': 'exception'})
            continue
        _, _, out = res
        if 'x AND y' not in out.columns:
            continue
        explicit = out.copy()
        explicit['x AND y'] = [f'{len(a)}|{a}|{b}' for a, b in zip(xs, ys)]
        sc = []
        for fr in (out, explicit):
            harness.reset_state()
            args = harness.make_args(heuristic='MI-numba-randomized', target_ranking_only='True')
            r = cr.mixed_rank_graph(fr, args, harness.InlinePool(), harness.NullBar())
            sc.append({(a, b): float(s) for a, b, s in r.triplet_scores})
        st.count('scoring_cases')
        st.count('nontrivial')
        bad = [k for k in sc[0] if not est.near(sc[0][k], sc[1].get(k, math.nan), 2e-5, 2e-5)]
        if bad:
            st.violation({'columns': ['x', 'y', 'label'], 'rows': rows, 'order': 2, 'cap': 2 ** 15, 'scoring': True},
                         f'score of the interaction differs from the score of the explicit tuple: {[(k, sc[0][k], sc[1].get(k)) for k in bad[:2]]}', {'kind': 'score'})
    return st


def _birthday(_):
    """many distinct value tuples in one interaction column: a hash narrower than 64 bits shows collisions here (300k tuples: ~10 expected for 32 bits)"""
    import pandas as pd
    from outrank import core_ranking as cr
    st = Stats()
    n = 300000
    xs = [str(i * 7919 % 1000003) for i in range(n)]
    ys = [str(i % 977) + 'u' + str(i // 977) for i in range(n)]
    harness.reset_state()
    df = pd.DataFrame({'x': xs + xs[:1000], 'y': ys + ys[:1000], 'label': ['0', '1'] * ((n + 1000) // 2)})
    args = harness.make_args(interaction_order=2, combination_number_upper_bound=10, heuristic='MI-numba-randomized')
    ok, out = safe(cr.compute_combined_features, df, args, harness.NullBar())
    st.count('evaluations')
    st.count('nontrivial')
    st.count('birthday_rows', n + 1000)
    case = {'kind': 'birthday', 'n': n}
    if not ok:
        st.violation(case, f'raised {out}', {'kind': 'exception'})
        return st
    col = out['x AND y']
    distinct = col.nunique()
    exp = len(set(zip(df['x'], df['y'])))
    if distinct != exp:
        st.violation(case, f'{exp} distinct value tuples but only {distinct} distinct interaction values ({exp - distinct} collisions: far more than a 64-bit hash allows)', {'kind': 'collisions'})
    if col.iloc[:1000].tolist() != col.iloc[n:n + 1000].tolist():
        st.violation(case, 'equal value tuples received different interaction values', {'kind': 'aliasing'})
    return st


DIGITS = ['0', '7', '1', '10', '1012345678', '1234567817', '101234567817', '234567817']
UNI = ['\u041c\u043e\u0441\u043a\u0432\u0430', '\u041a\u0430\u0437\u0430\u043d\u044c', '\u65e5\u672c', '\u4e2d\u56fd', '\u00fc', '\u00e9', 'u']
LONG = ['http://example.org/some/very/long/path/with/a/shared/prefix?id=' + t for t in ('1', '2', '10', '01')] + ['x' * 64 + 'a', 'x' * 64 + 'b', 'x' * 65]


def _long_values(_):
    """values that are long and differ only near their end (URLs, JSON dumps)"""
    st = Stats()
    cols = ['x', 'y', 'label']
    for a, b in itertools.product(LONG, repeat=2):
        for c, d in ((LONG[0], LONG[1]), (LONG[4], LONG[5]), ('s', LONG[6])):
            rows = [[a, c, '0'], [b, d, '1'], [a, d, '0'], [b, c, '1']]
            st.count('evaluations')
            st.count('nontrivial')
            st.count('long_value_cases')
            for sig, msg in judge(cols, rows, 2, 2 ** 15):
                st.violation({'columns': cols, 'rows': rows, 'order': 2, 'cap': 2 ** 15}, msg[:600], dict(sig, long=True))
    # ids of ten and more digits (a length prefix without delimiter is ambiguous from two-digit lengths on); same-length values in non-latin scripts
    for alphabet in (DIGITS, UNI):
        rowset = list(itertools.product(alphabet, repeat=2))
        for (a1, b1), (a2, b2) in itertools.combinations(rowset, 2):
            rows = [[a1, b1, '0'], [a2, b2, '1']]
            st.count('evaluations')
            st.count('nontrivial')
            st.count('long_value_cases')
            for sig, msg in judge(cols, rows, 2, 2 ** 15):
                st.violation({'columns': cols, 'rows': rows, 'order': 2, 'cap': 2 ** 15}, msg[:600], dict(sig, long=True))
    return st


SEQ_ROWS = [
    [['p', 's', '0'], ['q', 't', '1'], ['p', 't', '0']],
    [['q', 's', '1'], ['p', 's', '0'], ['q', 's', '1']],          # same names, same row count, other content
    [['1', '11', '0'], ['11', '1', '1'], ['', 'ü', '0']],
    [['p', 's', '0'], ['q', 't', '1']],                            # other row count
]


def seq_call(x):
    ri, order, cap = x
    import pandas as pd
    from outrank import core_ranking as cr
    cols = ['x', 'y', 'z', 'label'] if order == 3 else ['x', 'y', 'label']
    rows = [r[:2] + [r[0] + r[1]] + r[2:] for r in SEQ_ROWS[ri]] if order == 3 else SEQ_ROWS[ri]
    df = pd.DataFrame([list(r) for r in rows], columns=cols)
    args = harness.make_args(interaction_order=order, combination_number_upper_bound=cap, heuristic='MI-numba-randomized')
    out = cr.compute_combined_features(df, args, harness.NullBar())
    return {c: [pattern(out[c].tolist()), out[c].tolist()] for c in out.columns}


def seq_menu(job):
    order, cap = job
    return [(ri, order, cap) for ri in range(len(SEQ_ROWS))]


def _seqdiff(job):
    st = Stats()
    seqdiff.run(seq_call, seq_menu(job), 3, st, lambda seq, pos: {'kind': 'seqdiff', 'job': list(job), 'seq': list(seq)}, {'kind': 'history_dependent'})
    return st


def _dispatch(item):
    k, job = item
    if k == 'seqdiff':
        return _seqdiff(job)
    if k == 'long':
        return _long_values(job)
    if k == 'shapes':
        return _shapes(job)
    if k == 'four':
        return _four_cols(job)
    if k == 'birthday':
        return _birthday(job)
    return {'two': _two_col, 'multi': _multi_col, 'ints': _ints, 'scoring': _scoring}[k](job)


def run(ctx):
    jobs = []
    nrows = 3 if ctx.thorough else 2
    tot = 81 ** nrows
    jobs += [('two', (nrows, lo, hi)) for lo, hi in shards(tot, 256 if ctx.thorough else 32)]
    if ctx.thorough:
        jobs += [('two', (2, lo, hi)) for lo, hi in shards(81 ** 2, 16)]
    for k in (3, 4):
        np_ = len(aliasing_pairs(k))
        lim = np_ if (ctx.thorough or k == 3) else 600
        jobs += [('multi', (k, lo, hi)) for lo, hi in shards(lim, 48)]
    jobs += [('ints', None), ('scoring', None), ('birthday', None)]
    jobs += [('seqdiff', (2, 2 ** 15)), ('seqdiff', (3, 2 ** 15)), ('long', None), ('shapes', None), ('four', None)]
    for st in pmap(_dispatch, jobs):
        ctx.stats.merge(st)
    ctx.extra['rows_two_column_family'] = nrows
    if not ctx.thorough:
        ctx.extra['note'] = '4-column family limited to the first 600 aliasing row pairs in the quick tier (all 2835 in thorough)'
    if ctx.stats.n['nontrivial'] < 1000:
        raise HarnessError('vacuous')


def eval_case(case):
    if case.get('second_batch'):
        return [v['what'] for v in _four_cols(None).violations]
    if case.get('kind') == 'seqdiff':
        return seqdiff.replay(seq_call, seq_menu(tuple(case['job'])), case['seq'])
    if case.get('kind') == 'birthday':
        return [v['what'] for v in _birthday(None).violations]
    if case.get('after'):
        a = case['after']
        judge(a['columns'], a['rows'], a['order'], a['cap'], a.get('index'), bool(a.get('is_3mr')))
    return [m for _, m in judge(case['columns'], case['rows'], case['order'], case['cap'], case.get('index'), bool(case.get('is_3mr')))]
