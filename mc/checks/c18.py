"""C18 - feature summary = per-feature median of label scores, sorted, normalised; aggregated table for interactions."""
from __future__ import annotations

import contextlib
import io
import itertools
import math
import os
import statistics

from mc import harness, seqdiff
from mc.common import HarnessError, Stats, pmap, safe, scratch_dir, rm_scratch

PROPERTY = 'C18'
LEVEL = 'exploration'
RULE = ('outrank_task_result_summary on every pairwise_ranks.tsv that is a multiset of <= 3 (quick) / 4 (thorough) rows over: features {f, label2, "f AND label2", BRAND} '
        'paired with the label in both orientations, a feature-feature row (must be ignored), label-label; scores {-1,0,0.25,1}; plain and '
        '"-(card; cov)"-annotated names; configurations (MI-numba-randomized, order 2), (correlation-Pearson, order 1), (AMI, order 2); '
        'feature_singles.tsv and feature_singles_aggregated.tsv recomputed independently. distinct_nontrivial = files with >= 2 distinct features opposite the label')
ASSUMPTIONS = ['names containing "-" other than the annotation, a label containing "-", and names pandas reads as missing (NA, None) are outside the alphabet (the file format makes them ambiguous)',
               'when all medians are equal the min-max normalised value (0/0) is not judged']

FEATS = ['f', 'label2', 'f AND label2', 'BRAND']   # 'label2' starts with the label's name: only the name before the first '-' identifies the label
CARD = {'f': '(3; 100)', 'label2': '(2; 50)', 'f AND label2': '(5; 100)', 'BRAND': '(4; 99)', 'label': '(2; 100)'}
CONFIGS = [('MI-numba-randomized', 2, True), ('correlation-Pearson', 1, False), ('AMI', 2, False)]


def pair_kinds():
    ks = []
    for ft in FEATS:
        ks.append((ft, 'label'))
        ks.append(('label', ft))
    ks.append(('f', 'label2'))
    ks.append(('label', 'label'))
    return ks


def row_kinds(scores):
    return [(a, b, s) for (a, b) in pair_kinds() for s in scores]


def nm(x, annotated):
    return f'{x}-{CARD[x]}' if annotated else x


def reference(rows, heuristic, order, annotated):
    """independent recomputation; returns (singles: list[(name, value|None)] constraints, aggregated dict)"""
    per = {}
    for a, b, s in rows:
        if a == 'label':
            per.setdefault(nm(b, annotated), []).append(s)
        elif b == 'label':
            per.setdefault(nm(a, annotated), []).append(s)
    med = {k: statistics.median(v) for k, v in per.items()}
    norm = dict(med)
    judged = True
    if 'MI' in heuristic and med:
        lo, hi = min(med.values()), max(med.values())
        if hi == lo:
            judged = False
            norm = {k: None for k in med}
        else:
            norm = {k: (v - lo) / (hi - lo) for k, v in med.items()}
    agg = None
    if order > 1:
        store = {}
        for name, val in norm.items():
            base = name.split('-(')[0] if annotated else name
            if ' AND ' in base:
                for el in base.split(' AND '):
                    store.setdefault(el, []).append(val)
        agg = {k: (None if any(x is None for x in v) else statistics.median(v)) for k, v in store.items()}
    return med, norm, judged, agg


def run_summary(rows, heuristic, order, annotated, d):
    import pandas as pd
    from outrank.task_summary import outrank_task_result_summary
    for fn in ('feature_singles.tsv', 'feature_singles_aggregated.tsv', 'feature_singles_transformers_only_imp.tsv'):
        p = os.path.join(d, fn)
        if os.path.exists(p):
            os.remove(p)
    with open(os.path.join(d, 'pairwise_ranks.tsv'), 'w', encoding='utf-8') as f:
        f.write('FeatureA\tFeatureB\tScore\n')
        for a, b, s in rows:
            f.write(f'{nm(a, annotated)}\t{nm(b, annotated)}\t{s}\n')
    args = harness.make_args(output_folder=d, heuristic=heuristic, interaction_order=order, label_column='label', tldr='True')
    with contextlib.redirect_stdout(io.StringIO()):
        outrank_task_result_summary(args)
    singles = pd.read_csv(os.path.join(d, 'feature_singles.tsv'), sep='\t', keep_default_na=False)
    aggp = os.path.join(d, 'feature_singles_aggregated.tsv')
    agg = None
    if os.path.exists(aggp):
        try:
            agg = pd.read_csv(aggp, sep='\t', keep_default_na=False)
        except Exception:  # empty file
            agg = pd.DataFrame({'Feature': []})
    return singles, agg


def tofloat(x):
    try:
        return float(x)
    except Exception:
        return math.nan


def judge(rows, heuristic, order, annotated, d):
    fails = []
    med, norm, judged, agg_ref = reference(rows, heuristic, order, annotated)
    if not med:
        # no label rows at all: the implementation may produce an empty table or fail on it; nothing is stated -> only run it
        ok, res = safe(run_summary, rows, heuristic, order, annotated, d)
        return []
    ok, res = safe(run_summary, rows, heuristic, order, annotated, d)
    if not ok:
        return [({'kind': 'exception'}, f'summary raised {res}')]
    singles, agg = res
    names = list(singles['Feature'])
    col = [c for c in singles.columns if c != 'Feature']
    if len(col) != 1:
        return [({'kind': 'columns'}, f'unexpected columns {list(singles.columns)}')]
    vals = [tofloat(v) for v in singles[col[0]]]
    if sorted(names) != sorted(med.keys()):
        fails.append(({'kind': 'rows'}, f'feature_singles lists {names}, features scored against the label: {sorted(med)}'))
        return fails
    if judged:
        for n_, v in zip(names, vals):
            if not (abs(v - norm[n_]) <= 1e-9):
                fails.append(({'kind': 'value'}, f'{n_}: {v} in feature_singles, expected {norm[n_]} (median {med[n_]})'))
                break
        if any(vals[i] < vals[i + 1] - 1e-12 for i in range(len(vals) - 1)):
            fails.append(({'kind': 'order'}, f'not in descending score order: {list(zip(names, vals))}'))
    raw = [med[n_] for n_ in names]
    if any(raw[i] < raw[i + 1] - 1e-12 for i in range(len(raw) - 1)):
        fails.append(({'kind': 'order_raw'}, f'order inconsistent with the raw medians: {list(zip(names, raw))}'))
    if 'MI' in heuristic and judged and len(vals) > 1:
        if abs(max(vals) - 1) > 1e-9 or abs(min(vals)) > 1e-9:
            fails.append(({'kind': 'normalisation'}, f'normalised scores span [{min(vals)}, {max(vals)}], expected [0, 1]'))
    if order > 1:
        if agg is None:
            fails.append(({'kind': 'agg_missing'}, 'feature_singles_aggregated.tsv not written'))
        else:
            got = {}
            if len(agg.columns) >= 2:
                vc = [c for c in agg.columns if c != 'Feature'][0]
                got = {r['Feature']: tofloat(r[vc]) for _, r in agg.iterrows()}
            if sorted(got) != sorted(agg_ref):
                extra = sorted(set(got) - set(agg_ref))
                fails.append(({'kind': 'agg_rows', 'extra': extra[:2]}, f'aggregated table lists {sorted(got)}, constituents of interactions are {sorted(agg_ref)}'))
            else:
                for k, v in agg_ref.items():
                    if v is not None and not abs(got[k] - v) <= 1e-9:
                        fails.append(({'kind': 'agg_value'}, f'aggregated {k}: {got[k]} expected {v}'))
                        break
    return fails


def _job(job):
    k, scores, lo, hi = job
    st = Stats()
    d = scratch_dir('c18')
    try:
        kinds = row_kinds(scores)
        files = list(itertools.combinations_with_replacement(range(len(kinds)), k))[lo:hi]
        for combo in files:
            rows = [kinds[i] for i in combo]
            feats = {a if b == 'label' else b for a, b, _ in rows if 'label' in (a, b)}
            for heuristic, order, annotated in CONFIGS:
                st.count('evaluations')
                if len(feats) >= 2:
                    st.count('nontrivial')
                for sig, msg in judge(rows, heuristic, order, annotated, d):
                    st.violation({'rows': rows, 'heuristic': heuristic, 'order': order, 'annotated': annotated}, msg, dict(sig, heuristic=heuristic))
        if lo == 0 and files:
            st.sample({'rows': [kinds[i] for i in files[-1]], 'heuristic': 'MI-numba-randomized', 'order': 2, 'annotated': True})
    finally:
        rm_scratch(d)
    return st


SEQ_MENU = [
    ([('f', 'label', 1), ('label', 'f', 0.25), ('BRAND', 'label', 0)], 'MI-numba-randomized', 2, True),
    ([('label2', 'label', -1), ('f AND label2', 'label', 1), ('f', 'label2', 1)], 'MI-numba-randomized', 2, False),
    ([('f', 'label', 0.25)], 'correlation-Pearson', 1, False),
    ([('label', 'label', 1), ('BRAND', 'label', 0.25), ('label', 'BRAND', 1)], 'AMI', 2, True),
]


def _seqdiff(_):
    """successive summaries written into the SAME output folder (stale files / state from an earlier run must not leak)"""
    st = Stats()
    d = scratch_dir('c18s')

    def call(x):
        rows, heuristic, order, annotated = x
        singles, agg = run_summary(rows, heuristic, order, annotated, d)
        return {'singles': singles.astype(str).values.tolist(), 'agg': None if (agg is None or order <= 1) else agg.astype(str).values.tolist()}

    try:
        seqdiff.run(call, SEQ_MENU, 2, st, lambda seq, pos: {'kind': 'seqdiff', 'seq': list(seq)}, {'kind': 'history_dependent'})
    finally:
        rm_scratch(d)
    return st


def _wide(_):
    """a result table with 30 features (more than a console preview shows), negative medians, both tldr settings"""
    import pandas as pd
    from outrank.task_summary import outrank_task_result_summary
    st = Stats()
    d = scratch_dir('c18w')
    try:
        for heuristic in ('MI-numba-randomized', 'correlation-Pearson'):
            for tldr in ('True', False):
                rows = []
                for i in range(30):
                    rows.append((f'feat{i:02d}', 'label', round(-0.9 + 0.07 * i, 3)))
                    rows.append(('label', f'feat{i:02d}', round(-0.9 + 0.07 * i + (0.02 if i % 2 else 0), 3)))
                with open(os.path.join(d, 'pairwise_ranks.tsv'), 'w') as f:
                    f.write('FeatureA\tFeatureB\tScore\n' + ''.join(f'{a}\t{b}\t{s}\n' for a, b, s in rows))
                args = harness.make_args(output_folder=d, heuristic=heuristic, interaction_order=1, label_column='label', tldr=tldr)
                with contextlib.redirect_stdout(io.StringIO()):
                    ok, r = safe(outrank_task_result_summary, args)
                st.count('evaluations')
                st.count('nontrivial')
                st.count('wide_cases')
                case = {'kind': 'wide', 'heuristic': heuristic, 'tldr': str(tldr)}
                if not ok:
                    st.violation(case, f'summary raised {r}', {'kind': 'exception', 'heuristic': heuristic})
                    continue
                singles = pd.read_csv(os.path.join(d, 'feature_singles.tsv'), sep='\t', keep_default_na=False)
                med = {f'feat{i:02d}': statistics.median([round(-0.9 + 0.07 * i, 3), round(-0.9 + 0.07 * i + (0.02 if i % 2 else 0), 3)]) for i in range(30)}
                if sorted(singles['Feature']) != sorted(med):
                    st.violation(case, f'feature_singles.tsv has {len(singles)} rows, {len(med)} features were scored against the label', {'kind': 'rows', 'heuristic': heuristic, 'wide': True})
                    continue
                vals = dict(zip(singles['Feature'], [tofloat(v) for v in singles.iloc[:, 1]]))
                lo, hi = min(med.values()), max(med.values())
                exp = {k: ((v - lo) / (hi - lo) if 'MI' in heuristic else v) for k, v in med.items()}
                bad = [k for k in exp if abs(vals[k] - exp[k]) > 1e-9]
                if bad:
                    st.violation(case, f'{bad[0]}: {vals[bad[0]]} expected {exp[bad[0]]}', {'kind': 'value', 'heuristic': heuristic, 'wide': True})
    finally:
        rm_scratch(d)
    return st


def _orders(_):
    """interactions of several orders in one table (a reference model can contribute 3-way combinations to an order-2 run): every ' AND ' feature counts for each of its constituents"""
    st = Stats()
    d = scratch_dir('c18o')
    try:
        base = [('f AND label2', 'label', 0.5), ('f AND label2 AND BRAND', 'label', 1), ('label', 'BRAND AND f', 0.25), ('f', 'label', 0), ('label2 AND BRAND AND f AND g', 'label', -1)]
        global CARD
        CARD = dict(CARD, **{'f AND label2 AND BRAND': '(9; 100)', 'BRAND AND f': '(7; 100)', 'label2 AND BRAND AND f AND g': '(11; 90)'})
        for k in range(2, len(base) + 1):
            for rows in itertools.combinations(base, k):
                for heuristic, order, annotated in (('MI-numba-randomized', 2, True), ('AMI', 3, False), ('correlation-Pearson', 2, False)):
                    st.count('evaluations')
                    st.count('nontrivial')
                    st.count('mixed_order_cases')
                    for sig, msg in judge(list(rows), heuristic, order, annotated, d):
                        st.violation({'rows': [list(r) for r in rows], 'heuristic': heuristic, 'order': order, 'annotated': annotated}, msg, dict(sig, heuristic=heuristic, mixed_orders=True))
    finally:
        rm_scratch(d)
    return st


def run(ctx):
    ctx.stats.merge(_seqdiff(None))
    ctx.stats.merge(_wide(None))
    ctx.stats.merge(_orders(None))
    jobs = []
    kmax = 4 if ctx.thorough else 3
    for k in range(1, kmax + 1):
        scores = [-1, 0, 0.25, 1] if k <= 3 else [0, 0.25, 1]
        nk = len(row_kinds(scores))
        tot = math.comb(nk + k - 1, k)
        step = max(50, -(-tot // 96))
        jobs += [(k, scores, lo, min(tot, lo + step)) for lo in range(0, tot, step)]
    for st in pmap(_job, jobs):
        ctx.stats.merge(st)
    ctx.extra['max_rows'] = kmax
    if ctx.stats.n['nontrivial'] < 1000:
        raise HarnessError('vacuous')


def eval_case(case):
    global CARD
    CARD = dict(CARD, **{'f AND label2 AND BRAND': '(9; 100)', 'BRAND AND f': '(7; 100)', 'label2 AND BRAND AND f AND g': '(11; 90)'})
    if case.get('kind') == 'wide':
        return [v['what'] for v in _wide(None).violations if v['case']['heuristic'] == case['heuristic'] and v['case']['tldr'] == case['tldr']]
    if case.get('kind') == 'seqdiff':
        st = _seqdiff(None)
        return [v['what'] for v in st.violations]
    d = scratch_dir('c18r')
    try:
        rows = [tuple(r) for r in case['rows']]
        return [msg for sig, msg in judge(rows, case['heuristic'], case['order'], case['annotated'], d)]
    finally:
        rm_scratch(d)
