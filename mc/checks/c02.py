"""C02 - scores depend on co-occurrence structure, not on numeric category codes."""
from __future__ import annotations

import itertools

import numpy as np

from mc import enum, est, refs, harness
from mc.common import HarnessError, Stats, pmap, safe, shards

PROPERTY = 'C02'
LEVEL = 'exploration'
RULE = ('every ordered pair (Y, X) of restricted-growth strings of length n x both correction flags x injective recodings of one side '
        '(all permutations of the used codes when there are <= 4, plus +1, +1000, order-reversing, 37c+5, and 2^20-1-c for n<=5 and same-partition pairs) and the same fixed '
        'recodings applied to both sides; oracle = relabeling-invariant float64 reference with the self-pair rule applied iff the GIVEN '
        'vectors are element-wise identical, plus the metamorphic relation score(f(Y),g(X)) ~ score(Y,X) when identity status is unchanged; '
        'pipeline family: string frames whose category names are renamed so that pandas assigns other codes. '
        'distinct_nontrivial = distinct (pair, recoding) combinations where the recoding is not the identity and both vectors are non-constant')
ASSUMPTIONS = ['tolerance 1e-5 + 1e-5*|ref|', 'permutations complete only for <= 4 used codes; fixed recodings beyond']

TOP = 2 ** 20 - 1
FIXED = [
    ('plus1', lambda c: c + 1),
    ('plus1000', lambda c: c + 1000),
    ('affine', lambda c: 37 * c + 5),
    ('top', lambda c: TOP - c),
]


def recodings(t):
    """list of (name, tuple) injective recodings of the code vector t (identity excluded)"""
    k = max(t) + 1
    out = []
    seen = {t}
    if k <= 4:
        for perm in itertools.permutations(range(k)):
            r = tuple(perm[c] for c in t)
            if r not in seen:
                seen.add(r)
                out.append(('perm' + ''.join(map(str, perm)), r))
    else:
        rev = tuple(k - 1 - c for c in t)
        rot = tuple((c + 1) % k for c in t)
        sw = tuple({0: 1, 1: 0}.get(c, c) for c in t)
        for nm, r in (('reverse', rev), ('rotate', rot), ('swap01', sw)):
            if r not in seen:
                seen.add(r)
                out.append((nm, r))
    for nm, fn in FIXED:
        out.append((nm, tuple(fn(c) for c in t)))
    return out


_REC = {}


def rec_arrays(n):
    if n not in _REC:
        _REC[n] = [[(nm, r, np.array(r, dtype=np.int32)) for nm, r in recodings(t)] for t, _ in est.arrs(n)]
    return _REC[n]


def expected(ty, tx, flag, ref_plain, hy):
    """reference for the GIVEN vectors: self rule iff element-wise identical"""
    if flag and ty == tx:
        return hy
    return ref_plain


def _shard(job):
    n, lo, hi = job
    st = Stats()
    f = est.estimator()
    A = est.arrs(n)
    A2 = est.arrs2(n)
    R = rec_arrays(n)
    H = [refs.entropy(t) for t, _ in A]
    for i in range(lo, hi):
        ty, ay = A[i]
        for j in range(len(A)):
            tx, ax = A2[j]
            nontriv = H[i] > 0 and H[j] > 0
            for flag in (False, True):
                if flag:
                    ref_plain = refs.displaced(ty, tx) - refs.cond_entropy(ty, tx)
                else:
                    ref_plain = refs.plugin_mi(ty, tx)
                ref_self = H[i] if flag else ref_plain
                base_ident = (i == j)
                variants = [('identity', ty, ay, tx, ax)]
                # the 2^20-1-c recoding makes the estimator allocate a 4 MB histogram per call: applied for n <= 5 and to
                # same-partition pairs beyond
                use_top = n <= 5 or i == j
                for nm, r, ar in R[i]:
                    if nm != 'top' or use_top:
                        variants.append(('Y:' + nm, r, ar, tx, ax))
                for nm, r, ar in R[j]:
                    if nm != 'top' or use_top:
                        variants.append(('X:' + nm, ty, ay, r, ar))
                # same fixed recoding on both sides keeps identity status
                fy = {nm: (r, ar) for nm, r, ar in R[i]}
                fx = {nm: (r, ar) for nm, r, ar in R[j]}
                for nm, _ in FIXED:
                    if nm == 'top' and not use_top:
                        continue
                    variants.append(('both:' + nm, fy[nm][0], fy[nm][1], fx[nm][0], fx[nm][1]))
                s0 = None
                for nm, vy, vay, vx, vax in variants:
                    ident = (vy == vx)
                    exp = ref_self if (flag and ident) else ref_plain
                    ok, s = safe(f, vay, vax, est._F1, flag)
                    st.count('evaluations')
                    if not ok:
                        st.violation({'Y': vy, 'X': vx, 'flag': flag, 'recoding': nm}, f'exception {s}', {'kind': 'exception'})
                        continue
                    s = float(s)
                    if nm == 'identity':
                        s0 = s
                    elif nontriv:
                        st.count('nontrivial')
                    if not ident and sum(vy) == sum(vx):
                        st.count('equal_sum_not_identical')
                    if not ident and sorted(vy) == sorted(vx):
                        st.count('equal_histogram_not_identical')
                    if not est.near(s, exp):
                        kind = 'value'
                        if flag and not ident and est.near(s, refs.plugin_mi(vy, vx)) and not est.near(refs.plugin_mi(vy, vx), exp):
                            kind = 'self_rule_fired_on_different_vectors'
                        elif flag and ident:
                            kind = 'self_rule_missed'
                        st.violation({'Y': vy, 'X': vx, 'flag': flag, 'recoding': nm, 'base_Y': ty, 'base_X': tx},
                                     f'recoding {nm}: score {s!r}, reference {exp!r} (identical={ident})', {'kind': kind, 'flag': flag})
                    elif s0 is not None and ident == base_ident and not est.near(s, s0, 2e-5, 2e-5):
                        st.violation({'Y': vy, 'X': vx, 'flag': flag, 'recoding': nm, 'base_Y': ty, 'base_X': tx},
                                     f'recoding {nm} changed the score: {s0!r} -> {s!r}', {'kind': 'metamorphic', 'flag': flag})
    if lo == 0 and len(A) > 3:
        st.sample({'Y': R[-1][0][1], 'X': A[1][0], 'recoding': 'Y:' + R[-1][0][0], 'flag': True})
    return st


# ---- pipeline family: category names -> pandas codes ------------------------------------------------

NAMESETS = [
    ('asc', ['a', 'b', 'c', 'd', 'e', 'f']),
    ('desc', ['z', 'y', 'x', 'w', 'v', 'u']),
    ('mixed', ['10', '9', '', 'ü', 'B', 'a']),
]


def frame_scores(cols3, names, heuristic, pairwise):
    import pandas as pd
    from outrank import core_ranking as cr
    harness.reset_state()
    df = pd.DataFrame({nm: [names[c] for c in col] for nm, col in zip(('f1', 'f2', 'label'), cols3)})
    args = harness.make_args(heuristic=heuristic, target_ranking_only='False' if pairwise else 'True')
    res = cr.mixed_rank_graph(df, args, harness.InlinePool(), harness.NullBar())
    out = {}
    for a, b, s in res.triplet_scores:
        out.setdefault((a, b), []).append(float(s))
    return {k: sorted(v) for k, v in out.items()}


def _pipe(job):
    n, lo, hi = job
    st = Stats()
    A = enum.rgs_list(n)
    idx = 0
    for c1 in A:
        for c2 in A:
            for c3 in A:
                idx += 1
                if not (lo <= idx - 1 < hi):
                    continue
                base = None
                for nm, names in NAMESETS:
                    ok, sc = safe(frame_scores, (c1, c2, c3), names, 'MI-numba-randomized', True)
                    st.count('evaluations')
                    if not ok:
                        st.violation({'frame': [c1, c2, c3], 'names': nm}, f'exception {sc}', {'kind': 'pipeline_exception'})
                        continue
                    if base is None:
                        base = sc
                        continue
                    st.count('pipeline_renamings')
                    if len(set(c1)) > 1 and len(set(c3)) > 1:
                        st.count('nontrivial')
                    bad = [k for k in base if k not in sc or len(sc[k]) != len(base[k]) or any(not est.near(x, y, 2e-5, 2e-5) for x, y in zip(sc[k], base[k]))]
                    if bad:
                        st.violation({'frame': [c1, c2, c3], 'names': nm}, f'renaming categories ({nm}) changed scores of {bad[:3]}: {[(base[k], sc.get(k)) for k in bad[:3]]}',
                                     {'kind': 'pipeline_renaming'})
    return st


def _bigcard(_):
    """a 34 000-category column (more categories than a 16-bit code can hold) scored through the pipeline under two namings of its categories"""
    import pandas as pd
    from outrank import core_ranking as cr
    st = Stats()
    n = 34000
    ids = [(i * 7919) % 1000003 for i in range(n)]
    lab = [str((i // 3) % 2) for i in range(n)]
    out = []
    for naming in (lambda v: f'a{v:07d}', lambda v: f'z{1000003 - v:07d}'):
        harness.reset_state()
        df = pd.DataFrame({'ident': [naming(v) for v in ids], 'pair': [naming(v // 2) for v in ids], 'label': lab})
        args = harness.make_args(heuristic='MI-numba-3mr', target_ranking_only='True')
        ok, res = safe(cr.mixed_rank_graph, df, args, harness.InlinePool(), harness.NullBar())
        st.count('evaluations')
        st.count('bigcard_runs')
        st.count('nontrivial')
        if not ok:
            st.violation({'bigcard': True}, f'mixed_rank_graph raised {res}', {'kind': 'pipeline_exception'})
            return st
        out.append({(a, b): float(s) for a, b, s in res.triplet_scores})
    bad = [k for k in out[0] if not est.near(out[0][k], out[1].get(k, 9e9), 2e-5, 2e-5)]
    if bad:
        st.violation({'bigcard': True}, f'renaming the categories of a 34 000-category column changed scores: {[(k, out[0][k], out[1].get(k)) for k in bad[:3]]}', {'kind': 'pipeline_renaming', 'bigcard': True})
    # and against the value implied by the structure: 'pair' has two rows per category within one label block pattern -> plug-in MI computed directly
    exp = refs.plugin_mi([v // 2 for v in ids], [int(x) for x in lab])
    if not est.near(out[0].get(('pair', 'label'), 9e9), exp, 1e-4, 1e-4):
        st.violation({'bigcard': True}, f'(pair,label) scored {out[0].get(("pair", "label"))!r}, plug-in MI {exp!r}', {'kind': 'pipeline_value', 'bigcard': True})
    return st


def run(ctx):
    ctx.stats.merge(_bigcard(None))
    nmax = 7 if ctx.thorough else 6
    jobs = []
    for n in range(1, nmax + 1):
        for lo, hi in shards(enum.BELL[n], 128 if n >= 7 else (32 if n >= 5 else 1)):
            jobs.append((n, lo, hi))
    jobs.sort(key=lambda j: -j[0])
    for st in pmap(_shard, jobs):
        ctx.stats.merge(st)
    pn = 4 if not ctx.thorough else 5
    total = enum.BELL[pn] ** 3
    pj = [(pn, lo, hi) for lo, hi in shards(total, 64)]
    if not ctx.thorough:
        pj += [(3, 0, 125)]
    for st in pmap(_pipe, pj):
        ctx.stats.merge(st)
    ctx.extra['n_max'] = nmax
    ctx.extra['pipeline_rows'] = pn
    if ctx.stats.n['equal_sum_not_identical'] == 0 or ctx.stats.n['equal_histogram_not_identical'] == 0:
        raise HarnessError('vacuous: the equal-sum / equal-histogram non-identical class is empty')


def eval_case(case):
    if case.get('bigcard'):
        return [v['what'] for v in _bigcard(None).violations]
    if 'frame' in case:
        c1, c2, c3 = [tuple(c) for c in case['frame']]
        base = frame_scores((c1, c2, c3), NAMESETS[0][1], 'MI-numba-randomized', True)
        names = dict(NAMESETS)[case['names']]
        sc = frame_scores((c1, c2, c3), names, 'MI-numba-randomized', True)
        bad = [k for k in base if k not in sc or any(not est.near(x, y, 2e-5, 2e-5) for x, y in zip(sc[k], base[k]))]
        return [f'renaming changed {bad}'] if bad else []
    f = est.estimator()
    vy, vx, flag = tuple(case['Y']), tuple(case['X']), bool(case['flag'])
    s = float(f(np.array(vy, dtype=np.int32), np.array(vx, dtype=np.int32), est._F1, flag))
    exp = refs.score_ref(vy, vx, flag)
    fails = []
    if not est.near(s, exp):
        fails.append(f'score {s!r} reference {exp!r}')
    if 'base_Y' in case:
        by, bx = tuple(case['base_Y']), tuple(case['base_X'])
        s0 = float(f(np.array(by, dtype=np.int32), np.array(bx, dtype=np.int32), est._F1, flag))
        if (by == bx) == (vy == vx) and not est.near(s, s0, 2e-5, 2e-5):
            fails.append(f'recoding changed the score {s0!r} -> {s!r}')
    return fails
