"""C20 - derived synthetic structure (correlation, duplicates, combinations, labels, noise, down-sampling) is as declared."""
from __future__ import annotations

import itertools
import math

import numpy as np

from mc import explore
from mc.checks.c19 import ControlledRandom, patched_random, gen_cls
from mc.common import HarnessError, Stats, pmap, safe, shards

PROPERTY = 'C20'
LEVEL = 'exploration'
RULE = ('generate_correlated: every non-constant source column of length 4 over {0,1,2} (+ longer generated columns) x r in {-0.999,-0.9,-0.5,-0.1,0.1,0.5,0.8,0.99,0.995} x the normal draw replaced by each '
        'of 12 fixed non-collinear vectors, single index / index list / every subset of <= 2 columns, and chains of calls on one generator instance with changing data; generate_duplicates / generate_combinations (linear, nonlinear, _xor, _and, _or) for every '
        'index selection of <= 3 columns; dataset_info after every sequence of <= 3 generator calls; generate_labels for n in {2,3,4}, p scalar / list / array on tie-free decision values, every '
        'composition of 1 into n parts with step 0.1; generate_noise categorical and missing for p in {0,0.2,0.5,0.99} with every choice of cells under a controlled generator (n<=4) and over a seed '
        'window beyond; downsample_dataset for every n <= minority size x seeds x reshuffle. distinct_nontrivial = cases with a non-empty declared effect (>=1 column added / >=2 classes / >=1 cell flipped)')
ASSUMPTIONS = ['collinear or constant normal draws (probability zero) are excluded from the menu', 'missing marker representable in the data dtype',
               'Pearson agreement within 1e-6']

RS = [-0.999, -0.9, -0.5, -0.1, 0.1, 0.5, 0.8, 0.99, 0.995]


def normal_menu(n):
    base = [
        [1, -1, 2, -2, 3, -3, 4, -4], [0.3, 1.7, -0.2, 0.9, -1.1, 0.4, 2.2, -0.7], [5, 1, 0, 0, 2, 7, 1, 3], [-1, -1, 2, 0.5, 0.1, 0.2, -3, 1],
        [0.01, 0.02, -0.05, 0.03, 0.07, -0.02, 0.04, 0.0], [100, -50, 3, 7, -20, 11, 0.5, 9], [1, 2, 4, 8, 16, 32, 64, 128], [2, 0, 1, 0, 2, 0, 1, 0],
        [-0.5, 0.25, 0.75, -1.5, 1.0, -0.25, 0.6, 0.1], [3, 3, -3, 1, -1, 2, -2, 0], [0, 1, 0, -1, 0, 1, 0, -1], [1.1, 0.9, 1.3, 0.7, 1.6, 0.4, 1.2, 0.8],
    ]
    out = []
    for b in base:
        v = (b * (n // len(b) + 1))[:n]
        v = [x + 0.001 * i * i for i, x in enumerate(v)]
        out.append(np.array(v, dtype=float))
    return out


class FixedNormal:
    def __init__(self, vec):
        self.vec = vec

    def __call__(self, loc=0.0, scale=1.0, size=None):
        n = size if isinstance(size, int) else int(np.prod(size))
        return np.array(self.vec[:n], dtype=float)


def with_normal(vec, fn, *a, **k):
    old = np.random.normal
    np.random.normal = FixedNormal(vec)
    try:
        return fn(*a, **k)
    finally:
        np.random.normal = old


def collinear(src, vec):
    s = np.asarray(src, dtype=float)
    v = np.asarray(vec, dtype=float)
    s = s - s.mean()
    v = v - v.mean()
    if np.allclose(v, 0):
        return True
    resid = v - s * (s @ v) / (s @ s)
    return np.linalg.norm(resid) < 1e-6 * np.linalg.norm(v)


def judge_correlated(cols, indices, r, vec):
    """cols: list of columns (each list); indices: int or list"""
    X = np.array(cols, dtype=float).T
    g = gen_cls()()
    before = X.copy()
    ok, out = safe(with_normal, vec, g.generate_correlated, X, indices, r)
    if not ok:
        return [('exception', f'generate_correlated raised {out}')]
    fails = []
    idx = indices if isinstance(indices, list) else [indices]
    if out.shape != (X.shape[0], X.shape[1] + len(idx)):
        return [('shape', f'result shape {out.shape}, expected {(X.shape[0], X.shape[1] + len(idx))}')]
    if not np.array_equal(out[:, :X.shape[1]], before) or not np.array_equal(X, before):
        fails.append(('originals', 'original columns changed'))
    for k, i in enumerate(idx):
        src = before[:, i]
        gen = out[:, X.shape[1] + k]
        if np.std(src) == 0:
            continue
        c = float(np.corrcoef(src, gen)[0, 1])
        if not abs(c - r) <= 1e-6:
            fails.append(('correlation', f'source column {i} {src.tolist()}, r={r}: Pearson correlation of the generated feature is {c!r}'))
    info = g.dataset_info['correlations'][-1]
    rec = np.atleast_1d(np.asarray(info['correlated_indices'])).tolist()
    if rec != list(range(X.shape[1], X.shape[1] + len(idx))):
        fails.append(('info_correlated', f'dataset_info lists correlated_indices {rec}, columns added {list(range(X.shape[1], X.shape[1] + len(idx)))}'))
    if float(info['correlation_factor']) != r:
        fails.append(('info_correlated', 'recorded correlation factor differs'))
    return fails


def _corr_job(job):
    lo, hi = job
    st = Stats()
    srcs = [s for s in itertools.product([0, 1, 2], repeat=4) if len(set(s)) > 1][lo:hi]
    menu = normal_menu(4)
    other = [2, 0, 1, 1]
    for s in srcs:
        for r in RS:
            for vi, vec in enumerate(menu):
                if collinear(s, vec):
                    st.count('collinear_skipped')
                    continue
                for indices in (0, [0], [0, 1], [1, 0]):   # single index, list, ascending and non-ascending selection
                    if isinstance(indices, list) and len(indices) > 1 and collinear(other, vec):
                        continue
                    st.count('evaluations')
                    st.count('nontrivial')
                    st.count('correlated_cases')
                    for kind, msg in judge_correlated([list(s), other], indices, r, vec):
                        st.violation({'kind': 'correlated', 'cols': [list(s), other], 'indices': indices, 'r': r, 'normal': vi}, msg, {'kind': kind})
    if lo == 0:
        st.sample({'kind': 'correlated', 'cols': [list(srcs[0]), other], 'indices': 0, 'r': 0.8, 'normal': 0})
    return st


def judge_chain(sources, r, vec):
    """one generator instance, successive generate_correlated calls on DIFFERENT data sets of the same shape and index"""
    g = gen_cls()()
    fails = []
    for step, s in enumerate(sources):
        X = np.array([list(s), [2, 0, 1, 1]], dtype=float).T
        if collinear(s, vec):
            continue
        ok, out = safe(with_normal, vec, g.generate_correlated, X, 0, r)
        if not ok:
            return [('exception', f'call {step} raised {out}')]
        c = float(np.corrcoef(X[:, 0], out[:, 2])[0, 1])
        if not abs(c - r) <= 1e-6:
            fails.append(('correlation_chain', f'call {step + 1} on the same generator instance: source {list(s)}, r={r}: generated feature has correlation {c!r}'))
            break
    return fails


def _corr_const(_):
    """a constant column among the selected sources: nothing is claimed about its correlated copy, but the columns added, their pairing with the
    non-constant sources and the self-description must still be consistent"""
    st = Stats()
    menu = normal_menu(4)
    cols = [[0, 1, 2, 1], [5, 5, 5, 5], [2, 0, 1, 1]]
    for indices in ([0, 1], [1, 0], [1, 2], [0, 1, 2], [1]):
        for r in (0.8, -0.5):
            for vi in (0, 1):
                X = np.array(cols, dtype=float).T
                g = gen_cls()()
                with np.errstate(all='ignore'):
                    ok, out = safe(with_normal, menu[vi], g.generate_correlated, X.copy(), list(indices), r)
                st.count('evaluations')
                st.count('nontrivial')
                st.count('correlated_cases')
                case = {'kind': 'corr_const', 'indices': list(indices), 'r': r, 'normal': vi}
                if not ok:
                    st.violation(case, f'generate_correlated raised {out}', {'kind': 'exception'})
                    continue
                info = g.dataset_info['correlations'][-1]
                rec = np.atleast_1d(np.asarray(info['correlated_indices'])).tolist()
                added = list(range(3, out.shape[1]))
                if rec != added or len(added) != len(indices):
                    st.violation(case, f'sources {list(indices)} (column 1 is constant): {len(added)} columns added {added}, dataset_info lists {rec}', {'kind': 'info_correlated'})
                    continue
                for k, i in enumerate(indices):
                    if i == 1:
                        continue
                    c = float(np.corrcoef(X[:, i], out[:, 3 + k])[0, 1])
                    if not abs(c - r) <= 1e-6:
                        st.violation(case, f'source {i} is paired with added column {3 + k}, whose correlation with it is {c!r}, requested {r}', {'kind': 'correlation_pairing'})
                        break
    return st


def _corr_tiny(_):
    """non-constant sources whose spread is tiny (1e-7 .. 1e-10) or huge: the construction must not rely on an assumed norm"""
    st = Stats()
    menu = normal_menu(6)
    base = [0.0, 1.0, 2.0, 1.0, 0.0, 3.0]
    for scale in (1e-7, 1e-8, 1e-9, 1e-10, 1e6):
        for shift in (0.0, 5.0):
            src = [shift + v * scale for v in base]
            for r in (0.8, -0.5, 0.1):
                for vi in (0, 1, 5):
                    st.count('evaluations')
                    st.count('nontrivial')
                    st.count('correlated_cases')
                    if len(set(src)) < 2:
                        continue
                    for kind, msg in judge_correlated([src, [2, 0, 1, 1, 3, 0]], 0, r, menu[vi]):
                        st.violation({'kind': 'corr_tiny', 'scale': scale, 'shift': shift, 'r': r, 'normal': vi}, msg, {'kind': kind, 'tiny': True})
    return st


def _corr_chain(job):
    lo, hi = job
    st = Stats()
    srcs = [s for s in itertools.product([0, 1, 2], repeat=4) if len(set(s)) > 1]
    menu = normal_menu(4)
    for i in range(lo, hi):
        chain = [srcs[i], srcs[(i + 1) % len(srcs)], srcs[(i + 7) % len(srcs)], srcs[i]]
        for r in (0.8, -0.5):
            for vi in (0, 1, 5):
                st.count('evaluations')
                st.count('nontrivial')
                st.count('correlated_chain_cases')
                for kind, msg in judge_chain(chain, r, menu[vi]):
                    st.violation({'kind': 'corr_chain', 'sources': [list(c) for c in chain], 'r': r, 'normal': vi}, msg, {'kind': kind})
    return st


def _corr_long(_):
    st = Stats()
    for n in (7, 50):
        menu = normal_menu(n)
        g = gen_cls()()
        X = g.generate_data(3, n, cardinality=4, seed=3, ensure_rep=True)
        cols = [X[:, j].tolist() for j in range(3)]
        for r in RS:
            for vi, vec in enumerate(menu):
                for indices in (0, [2], [0, 1, 2]):
                    if any(collinear(cols[i], vec) for i in (indices if isinstance(indices, list) else [indices])):
                        continue
                    st.count('evaluations')
                    st.count('nontrivial')
                    st.count('correlated_cases')
                    for kind, msg in judge_correlated(cols, indices, r, vec):
                        st.violation({'kind': 'correlated', 'cols': cols, 'indices': indices, 'r': r, 'normal': vi}, msg, {'kind': kind})
    return st


# ---------------- duplicates / combinations / dataset_info ---------------------------------------------

BASE = np.array([[0, 1, 2, 5], [1, 1, 0, 6], [2, 0, 1, 7], [0, 2, 2, 4], [3, 1, 0, 5]], dtype=np.int32)
COMB = ['linear', 'nonlinear', '_xor', '_and', '_or']


def comb_ref(sel, kind):
    sel = np.asarray(sel).astype(int)
    if kind == 'linear':
        return sel.sum(axis=1).astype(float)
    if kind == 'nonlinear':
        return np.sin(sel.sum(axis=1))
    f = {'_xor': np.bitwise_xor, '_and': np.bitwise_and, '_or': np.bitwise_or}[kind]
    out = sel[:, 0]
    for j in range(1, sel.shape[1]):
        out = f(out, sel[:, j])
    return out.astype(float)


def apply_call(g, X, call):
    kind, idx = call[0], call[1]
    ncol = X.shape[1]
    if kind == 'dup':
        out = g.generate_duplicates(X, idx)
        n_added = len(idx) if isinstance(idx, list) else 1
        info = np.atleast_1d(np.asarray(g.dataset_info['duplicates'][-1]['duplicate_indices'])).tolist()
        ii = idx if isinstance(idx, list) else [idx]
        expect_vals = X[:, ii].astype(float)
    elif kind == 'comb':
        ctype = call[2]
        if ctype in ('linear', 'nonlinear'):
            out = g.generate_combinations(X, idx, combination_type=ctype)
        else:
            out = g.generate_combinations(X, idx, combination_function=getattr(g, ctype))
        n_added = 1
        info = [g.dataset_info['combinations'][-1]['combination_ix']]
        expect_vals = comb_ref(X[:, idx], ctype).reshape(-1, 1)
        if g.dataset_info['combinations'][-1]['combination_type'] != ctype:
            raise AssertionError(f'recorded combination_type {g.dataset_info["combinations"][-1]["combination_type"]!r} for {ctype}')
    else:
        raise HarnessError(kind)
    return out, n_added, info, expect_vals


def judge_sequence(calls):
    g = gen_cls()()
    X = BASE.copy()
    fails = []
    for step, call in enumerate(calls):
        before = X.copy()
        ok, res = safe(apply_call, g, X, call)
        if not ok:
            return [('exception', f'call {call} raised {res}')]
        out, n_added, info, expect_vals = res
        added = list(range(before.shape[1], before.shape[1] + n_added))
        if out.shape != (before.shape[0], before.shape[1] + n_added):
            return [('shape', f'call {call}: shape {out.shape}')]
        if not np.array_equal(np.asarray(out[:, :before.shape[1]], dtype=float), before.astype(float)):
            fails.append(('originals', f'call {call}: existing columns changed'))
        if not np.allclose(np.asarray(out[:, before.shape[1]:], dtype=float), expect_vals, atol=1e-12):
            fails.append(('values_' + call[0], f'call {call}: appended values {out[:, before.shape[1]:].tolist()} expected {expect_vals.tolist()}'))
        if [int(x) for x in info] != added:
            fails.append(('info_' + call[0], f'call {call}: dataset_info lists indices {info}, columns added are {added}'))
        X = np.asarray(out)
    return fails


def call_menu():
    calls = []
    for r in (1, 2, 3):
        for idx in itertools.permutations(range(4), r):      # ascending and non-ascending selections
            calls.append(('dup', list(idx)))
    calls.append(('dup', 2))
    calls.append(('comb', [3, 0], 'linear'))
    calls.append(('comb', [2, 1, 0], '_xor'))
    for r in (2, 3):
        for idx in itertools.combinations(range(4), r):
            for c in COMB:
                calls.append(('comb', list(idx), c))
    return calls


def _seq_job(job):
    depth, lo, hi = job
    st = Stats()
    menu = call_menu()
    short = [c for c in menu if (c[0] == 'dup' and (not isinstance(c[1], list) or len(c[1]) <= 2)) or (c[0] == 'comb' and c[2] in ('linear', '_xor') and len(c[1]) == 2)]
    seqs = list(itertools.product(menu, repeat=1)) if depth == 1 else list(itertools.product(short, repeat=depth))
    for seq in seqs[lo:hi]:
        st.count('evaluations')
        st.count('nontrivial')
        st.count('sequence_cases')
        for kind, msg in judge_sequence(seq):
            st.violation({'kind': 'sequence', 'calls': [list(c) for c in seq]}, msg, {'kind': kind})
    if lo == 0 and seqs:
        st.sample({'kind': 'sequence', 'calls': [list(c) for c in seqs[-1]]})
    return st


# ---------------- labels ------------------------------------------------------------------------------------

def distributions(n):
    out = []
    for parts in itertools.product(range(1, 10), repeat=n):
        if sum(parts) == 10:
            out.append([p / 10 for p in parts])
    return out


def label_X(N):
    # all-distinct rows -> tie-free linear decision values 2x+3 summed
    return np.array([[i * 3 + (i * i) % 3, i] for i in range(N)], dtype=np.int32)[np.random.RandomState(N).permutation(N)]


def judge_labels(N, n, p, ptype, relation):
    g = gen_cls()()
    X = label_X(N)
    if ptype == 'list':
        parg = list(p)
    elif ptype == 'array':
        parg = np.array(p)
    else:
        parg = p
    p_before = np.array(parg, dtype=float).copy() if ptype != 'scalar' else None
    X_before = X.copy()
    ok, y = safe(g.generate_labels, X, n, parg, 2, None, relation)
    if ok and ptype != 'scalar':
        if not np.array_equal(np.array(parg, dtype=float), p_before) or not np.array_equal(X, X_before):
            return [('labels_args_modified', f'generate_labels modified its arguments: p {p_before.tolist()} -> {np.array(parg, dtype=float).tolist()}')]
        # the caller's distribution object is used for a second data set
        ok2, y2 = safe(g.generate_labels, X, n, parg, 2, None, relation)
        if not ok2 or not np.array_equal(np.asarray(y2), np.asarray(y)):
            return [('labels_second_call', f'a second call with the same distribution object gives {"an exception " + str(y2) if not ok2 else "other labels"}')]
    if not ok:
        if 'sum of values' in str(y) and ptype != 'scalar' and sum(parg) > 1:
            return [('rejected', '')]   # the generator's own validation rejects this (float-rounded) distribution: outside the alphabet
        return [('exception_labels', f'generate_labels raised {y}')]
    y = np.asarray(y)
    if relation == 'linear':
        dec = np.sum(2 * X + 3, axis=1).astype(float)
    else:
        dec = np.sum(2 * np.sin(X) + 2 * np.cos(X), axis=1)
    if len(set(dec.tolist())) != N:
        return []
    fails = []
    if y.shape != (N,):
        return [('labels_shape', f'{y.shape}')]
    if set(y.tolist()) - set(range(n)):
        fails.append(('label_values', f'labels {sorted(set(y.tolist()))} outside 0..{n - 1}'))
    order = np.argsort(dec)
    ys = y[order].tolist()
    if any(ys[i] > ys[i + 1] for i in range(N - 1)):
        fails.append(('label_monotone', f'labels are not a monotone step function of the decision value: {ys}'))
    if ptype == 'scalar':
        shares = [p, 1 - p] if n == 2 else [1 / n] * n
    else:
        shares = list(p)
        if n == 2:
            shares = [p[0], 1 - p[0]]
    cum = 0.0
    cnt = 0
    for c in range(n - 1):
        cum += shares[c]
        cnt += ys.count(c)
        if abs(cnt - N * cum) > 1 + 1e-9:
            fails.append(('label_distribution', f'N={N}, n={n}, p={p} ({ptype}): {cnt} rows in classes <= {c}, requested share {cum:.2f} (= {N * cum:.1f} rows); labels by decision value {ys}'))
            break
    return fails


def _labels_job(job):
    n, lo, hi = job
    st = Stats()
    cases = []
    for N in (10, 20, 23):
        for relation in ('linear', 'nonlinear'):
            if n == 2:
                for p in (0.1, 0.3, 0.5, 0.7, 0.9):
                    cases.append((N, n, p, 'scalar', relation))
                    cases.append((N, n, [p, round(1 - p, 10)], 'list', relation))
                    cases.append((N, n, [p, round(1 - p, 10)], 'array', relation))
            else:
                cases.append((N, n, 0.5, 'scalar', relation))
                for d in distributions(n):
                    cases.append((N, n, d, 'list', relation))
                    cases.append((N, n, d, 'array', relation))
    if n == 2:
        # many classes with the scalar (equal-split) distribution
        for nn in range(5, 61):
            cases.append((240, nn, 0.5, 'scalar', 'linear'))
    for N, n_, p, ptype, relation in cases[lo:hi]:
        st.count('evaluations')
        st.count('nontrivial')
        st.count('label_cases')
        for kind, msg in judge_labels(N, n_, p, ptype, relation):
            if kind == 'rejected':
                st.count('distributions_rejected_by_validation')
                continue
            st.violation({'kind': 'labels', 'N': N, 'n': n_, 'p': p, 'ptype': ptype, 'relation': relation}, msg, {'kind': kind, 'ptype': ptype})
    return st, len(cases)


# ---------------- noise ---------------------------------------------------------------------------------------

def judge_noise(X, y, p, ntype, out):
    fails = []
    n = X.shape[0]
    k = int(n * p)
    out = np.asarray(out)
    if out.shape != X.shape:
        return [('noise_shape', f'{out.shape} vs {X.shape}')]
    for j in range(X.shape[1]):
        changed = int(np.sum(out[:, j] != X[:, j]))
        if ntype == 'categorical':
            if changed > k:
                fails.append(('noise_too_many', f'feature {j}: {changed} cells changed, floor(p*n)={k}'))
            dom = set(X[:, j].tolist())
            bad = set(out[:, j].tolist()) - dom
            if bad:
                fails.append(('noise_domain', f'feature {j}: values {sorted(bad)} are not in the feature\'s own domain {sorted(dom)}'))
        else:
            marks = int(np.sum(out[:, j] == -1))
            if marks != k or changed != k:
                fails.append(('noise_missing_count', f'feature {j}: {marks} markers / {changed} changed cells, expected exactly floor(p*n)={k}'))
    return fails


def run_noise(X, y, p, ntype, chooser=None, seed=None):
    g = gen_cls()()
    Xc, yc = X.copy(), y.copy()
    kw = dict(p=p, type=ntype)
    if ntype == 'missing':
        kw['missing_val'] = -1
    if chooser is not None:
        with patched_random(ControlledRandom(chooser)):
            out = g.generate_noise(Xc, yc, **kw)
    else:
        np.random.seed(seed)
        out = g.generate_noise(Xc, yc, **kw)
    untouched = np.array_equal(Xc, X) and np.array_equal(yc, y)
    return out, untouched


NOISE_SETS = [
    (np.array([[0, 5], [1, 5], [2, 6], [0, 7]], dtype=np.int32), np.array([0, 0, 1, 1])),
    (np.array([[0, 5], [1, 5], [2, 6]], dtype=np.int32), np.array([0, 0, 1])),
    (np.array([[0, 5], [1, 6], [2, 7], [3, 8]], dtype=np.int32), np.array([1, 0, 2, 0])),
    (np.array([[0], [0], [1], [2]], dtype=np.int32), np.array([0, 1, 1, 1])),
    # class labels that are not 0..k-1 (a class can be empty when cut points tie; users may label classes 1/2)
    (np.array([[0, 5], [1, 5], [2, 6], [0, 7]], dtype=np.int32), np.array([0, 0, 2, 2])),
    (np.array([[0, 5], [1, 6], [2, 6], [0, 7]], dtype=np.int32), np.array([1, 2, 1, 2])),
    # real-valued data (as after generate_correlated / a nonlinear combination appended a float column)
    (np.array([[0.0, 5.5], [1.0, 5.5], [2.0, 6.25], [0.0, 7.0]], dtype=np.float64), np.array([0, 0, 1, 1])),
    (np.array([[0.5], [0.5], [1.5], [2.5]], dtype=np.float64), np.array([0, 1, 1, 0])),
]


def _noise_ctrl_job(job):
    si, p, ntype, max_dev = job
    st = Stats()
    X, y = NOISE_SETS[si]

    def body(ch):
        return safe(run_noise, X, y, p, ntype, ch)

    for choices, (ok, res) in explore.explore_choices(body, max_dev=max_dev, max_runs=30000):
        st.count('evaluations')
        st.count('noise_cases')
        if int(len(y) * p) >= 1:
            st.count('nontrivial')
        case = {'kind': 'noise_ctrl', 'set': si, 'p': p, 'type': ntype, 'choices': choices}
        if not ok:
            st.violation(case, f'generate_noise({ntype}, p={p}) raised {res} on X={X.tolist()} y={y.tolist()}', {'kind': 'exception_noise', 'type': ntype})
            continue
        out, untouched = res
        if not untouched:
            st.violation(case, 'generate_noise modified its input', {'kind': 'noise_input_modified', 'type': ntype})
        for kind, msg in judge_noise(X, y, p, ntype, out):
            st.violation(case, msg, {'kind': kind, 'type': ntype})
    return st


def _noise_seed_job(job):
    seeds = job
    st = Stats()
    g = gen_cls()()
    for n, nf in ((7, 3), (50, 4)):
        X = g.generate_data(nf, n, cardinality=4, seed=n, ensure_rep=True)
        for ncls in (2, 3):
            y = np.asarray(g.generate_labels(X + np.arange(n).reshape(-1, 1) * 7, n=ncls, p=0.5 if ncls == 2 else [0.3, 0.3, 0.4]))
            for p in (0, 0.2, 0.5, 0.99):
                for ntype in ('categorical', 'missing'):
                    for seed in seeds:
                        ok, res = safe(run_noise, X, y, p, ntype, None, seed)
                        st.count('evaluations')
                        st.count('noise_cases')
                        st.count('nontrivial')
                        case = {'kind': 'noise_seed', 'n': n, 'nf': nf, 'classes': ncls, 'p': p, 'type': ntype, 'seed': seed}
                        if not ok:
                            st.violation(case, f'generate_noise raised {res}', {'kind': 'exception_noise', 'type': ntype})
                            continue
                        out, untouched = res
                        if not untouched:
                            st.violation(case, 'generate_noise modified its input', {'kind': 'noise_input_modified', 'type': ntype})
                        for kind, msg in judge_noise(X, y, p, ntype, out):
                            st.violation(case, msg, {'kind': kind, 'type': ntype})
    return st


# ---------------- down-sampling -------------------------------------------------------------------------

def _down_job(seeds):
    st = Stats()
    g = gen_cls()()
    sets = [(np.arange(24).reshape(8, 3), np.array([0, 0, 0, 1, 1, 2, 2, 2])), (np.arange(10).reshape(5, 2), np.array([1, 0, 1, 0, 1])),
            (np.arange(14).reshape(7, 2), np.array([3, 3, 5, 5, 5, 3, 5])),
            (np.arange(12).reshape(6, 2), np.array([0, 1, 0, 1, 0, 1])), (np.arange(16).reshape(8, 2), np.array([2, 2, 7, 7, 2, 7, 2, 7]))]   # the last two are already balanced
    for si, (X, y) in enumerate(sets):
        vals, counts = np.unique(y, return_counts=True)
        for n in [None] + list(range(1, int(counts.min()) + 1)):
            for seed in seeds:
                for resh in (False, True):
                    np.random.seed(seed)
                    ok, res = safe(g.downsample_dataset, X.copy(), y.copy(), n, seed, resh)
                    st.count('evaluations')
                    st.count('downsample_cases')
                    st.count('nontrivial')
                    case = {'kind': 'downsample', 'set': si, 'n': n, 'seed': seed, 'reshuffle': resh}
                    if not ok:
                        st.violation(case, f'downsample_dataset raised {res}', {'kind': 'exception_downsample'})
                        continue
                    Xd, yd = res
                    nn = int(counts.min()) if n is None else n
                    yd = np.asarray(yd)
                    Xd = np.asarray(Xd)
                    if len(yd) != nn * len(vals) or Xd.shape[0] != len(yd):
                        st.violation(case, f'{len(yd)} rows returned, expected {nn} per class x {len(vals)} classes', {'kind': 'downsample_count'})
                        continue
                    for v in vals:
                        rows = Xd[yd == v]
                        if len(rows) != nn:
                            st.violation(case, f'class {v}: {len(rows)} rows, expected {nn}', {'kind': 'downsample_count'})
                        src = {tuple(r) for r in X[y == v].tolist()}
                        if any(tuple(r) not in src for r in rows.tolist()):
                            st.violation(case, f'class {v}: a returned row is not a row of that class in the input', {'kind': 'downsample_class'})
    return st


def _dispatch(item):
    k, job = item
    if k == 'labels':
        return _labels_job(job)[0]
    return {'corr': _corr_job, 'corr_chain': _corr_chain, 'corr_const': _corr_const, 'corr_tiny': _corr_tiny, 'corr_long': _corr_long, 'seq': _seq_job, 'noise_ctrl': _noise_ctrl_job, 'noise_seed': _noise_seed_job, 'down': _down_job}[k](job)


def run(ctx):
    jobs = [('corr', (lo, hi)) for lo, hi in shards(78, 26)]
    jobs.append(('corr_long', None))
    jobs.append(('corr_tiny', None))
    jobs.append(('corr_const', None))
    jobs += [('corr_chain', (lo, hi)) for lo, hi in shards(78, 6)]
    nm = len(call_menu())
    jobs += [('seq', (1, 0, nm))]
    short = len([c for c in call_menu() if (c[0] == 'dup' and (not isinstance(c[1], list) or len(c[1]) <= 2)) or (c[0] == 'comb' and c[2] in ('linear', '_xor') and len(c[1]) == 2)])
    jobs += [('seq', (2, lo, hi)) for lo, hi in shards(short ** 2, 8)]
    if ctx.thorough:
        jobs += [('seq', (3, lo, hi)) for lo, hi in shards(short ** 3, 32)]
    for n in (2, 3, 4):
        _, total = _labels_job((n, 0, 0))
        jobs += [('labels', (n, lo, hi)) for lo, hi in shards(total, 16)]
    max_dev = 4 if ctx.thorough else 3
    for si in range(len(NOISE_SETS)):
        for p in (0, 0.2, 0.5, 0.99):
            for ntype in ('categorical', 'missing'):
                jobs.append(('noise_ctrl', (si, p, ntype, max_dev)))
    W = 40 if ctx.thorough else 8
    seeds = list(range(ctx.seed * W, ctx.seed * W + W))
    jobs += [('noise_seed', seeds[i::4]) for i in range(4)]
    jobs.append(('down', seeds[:6] if not ctx.thorough else seeds[:20]))
    for st in pmap(_dispatch, jobs):
        ctx.stats.merge(st)
    ctx.extra['seed_window'] = [seeds[0], seeds[-1]]
    ctx.extra['noise_deviation_bound'] = max_dev
    if ctx.stats.n['nontrivial'] < 1000:
        raise HarnessError('vacuous')


def eval_case(case):
    k = case['kind']
    if k == 'correlated':
        n = len(case['cols'][0])
        return [m for _, m in judge_correlated(case['cols'], case['indices'], case['r'], normal_menu(n)[case['normal']])]
    if k == 'corr_tiny':
        return [v['what'] for v in _corr_tiny(None).violations if v['case']['scale'] == case['scale']]
    if k == 'corr_const':
        return [v['what'] for v in _corr_const(None).violations if v['case']['indices'] == case['indices']]
    if k == 'corr_chain':
        return [m for _, m in judge_chain([tuple(c) for c in case['sources']], case['r'], normal_menu(4)[case['normal']])]
    if k == 'sequence':
        return [m for _, m in judge_sequence([tuple(c) for c in case['calls']])]
    if k == 'labels':
        return [m for k_, m in judge_labels(case['N'], case['n'], case['p'], case['ptype'], case['relation']) if k_ != 'rejected']
    if k == 'noise_ctrl':
        X, y = NOISE_SETS[case['set']]
        ok, res = safe(run_noise, X, y, case['p'], case['type'], explore.Chooser(case['choices']))
        if not ok:
            return [f'raised {res}']
        out, untouched = res
        return ([] if untouched else ['input modified']) + [m for _, m in judge_noise(X, y, case['p'], case['type'], out)]
    if k == 'noise_seed':
        st = _noise_seed_job([case['seed']])
        return [v['what'] for v in st.violations if v['case'].get('type') == case['type']]
    if k == 'downsample':
        st = _down_job([case['seed']])
        return [v['what'] for v in st.violations]
    return []
