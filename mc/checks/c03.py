"""C03 - cardinality correction subtracts the displaced-copy noise floor."""
from __future__ import annotations

from types import SimpleNamespace

import numpy as np

from mc import enum, est, refs, seqdiff
from mc.common import HarnessError, Stats, pmap, safe, shards, isolated

PROPERTY = 'C03'
LEVEL = 'exploration'
RULE = ('(A) every ordered pair (Y, X) of restricted-growth strings of length n scored by mutual_info_estimator_numba(Y, X, 1, True) and '
        'compared with a float64 reference H(Y*|X) - H(Y|X) (Y* = Y read at the position advanced cyclically by the stratum size; '
        'element-wise identical vectors -> H(Y)); corollaries (constant / all-distinct feature -> 0, self -> entropy) on the complete sets; six large structured cases (300 and 900 classes, strata of 4000..6000 rows, drifting row order); '
        '(C) planted-signal ranking corollary over a finite seed window; (D) heuristic name -> correction flag, incl. every ordered pair of numba_mi calls over (vectors, heuristic name, ratio) in one process state vs a pristine state. '
        'distinct_nontrivial = ordered pairs with Y != X element-wise, both non-constant')
ASSUMPTIONS = ['tolerance 1e-5 + 1e-5*|ref|', 'ranking corollary: complete enumeration of the seed window VERIF_SEED*W..+W-1 only']


def check_one(f, ty, ay, tx, ax, st):
    ref = refs.corrected_mi(ty, tx)
    ok, s = safe(f, ay, ax, est._F1, True)
    st.count('evaluations')
    if not ok:
        st.violation({'Y': ty, 'X': tx}, f'exception {s}', {'kind': 'exception'})
        return None
    s = float(s)
    if not est.near(s, ref):
        ident = ty == tx
        kind = 'self' if ident else 'value'
        # classify the well-known failure shape: equal code sums without identity
        if not ident and sum(ty) == sum(tx):
            kind = 'equal_sum_not_identical'
        st.violation({'Y': ty, 'X': tx}, f'corrected score {s!r} but H(Y*|X)-H(Y|X) = {ref!r}', {'kind': kind})
    else:
        k = len(set(ty))
        if ty != tx:
            if k == 1 and abs(s) > est.ATOL:
                st.violation({'Y': ty, 'X': tx}, f'constant feature scored {s!r}', {'kind': 'constant_feature'})
            if k == len(ty) and len(ty) > 1 and abs(s) > est.ATOL:
                st.violation({'Y': ty, 'X': tx}, f'all-distinct feature scored {s!r}', {'kind': 'identifier_feature'})
    st.see('scores', round(s, 5))
    return s


def _shard(job):
    n, lo, hi = job
    st = Stats()
    f = est.estimator()
    A = est.arrs(n)
    A2 = est.arrs2(n)     # the target side lives in its own buffers: a self pair is a pair of EQUAL vectors, not of one object
    for i in range(lo, hi):
        ty, ay = A[i]
        ky = len(set(ty))
        for j in range(len(A)):
            tx, ax = A2[j]
            check_one(f, ty, ay, tx, ax, st)
            if i != j and ky > 1 and len(set(tx)) > 1:
                st.count('nontrivial')
                if sum(ty) == sum(tx):
                    st.count('equal_sum_not_identical')
            if i == j:
                st.count('self_pairs')
            if ky == 1:
                st.count('constant_feature')
            if ky == n and n > 1:
                st.count('identifier_feature')
    if lo == 0:
        st.sample({'Y': A[-1][0], 'X': A[len(A) // 2][0], 'flag': True})
    return st


def planted_case(seed, n, card):
    rs = np.random.RandomState(seed)
    target = rs.randint(0, 2, n).astype(np.int32)
    flip = rs.random_sample(n) < 0.15
    planted = np.where(flip, 1 - target, target).astype(np.int32)
    noise = rs.randint(0, card, n).astype(np.int32)
    return target, planted, noise


CARDS = lambda n: [2, 4, 16, 64, 256, 1024, n // 2, n]


def _ranking(job):
    seed, n = job
    st = Stats()
    f = est.estimator()
    for card in CARDS(n):
        target, planted, noise = planted_case(seed, n, card)
        sp = float(f(planted, target, est._F1, True))
        sn = float(f(noise, target, est._F1, True))
        up = float(f(planted, target, est._F1, False))
        un = float(f(noise, target, est._F1, False))
        st.count('evaluations', 4)
        st.count('ranking_cases')
        if not sp > sn:
            st.violation({'seed': seed, 'n': n, 'card': card}, f'corrected: planted {sp!r} does not outrank noise(card={card}) {sn!r}', {'kind': 'ranking'})
        if not up > un:
            st.count('uncorrected_misranks')
        st.see('margin', round(sp - sn, 2))
    return st


def _flags(_):
    """(D) heuristic name -> correction flag through importance_estimator.numba_mi"""
    from outrank.algorithms import importance_estimator as ie
    st = Stats()
    f = est.estimator()
    for n in (4, 5):
        A = est.arrs(n)
        for ty, ay in A:
            for tx, ax in A[::7]:
                direct = {True: float(f(ay, ax, est._F1, True)), False: float(f(ay, ax, est._F1, False))}
                # the dispatcher used by the pipeline must hand the estimator's value through unchanged (negative corrected scores included)
                for name, flag in (('MI-numba-randomized', True), ('MI-numba-3mr', False)):
                    a_ = SimpleNamespace(heuristic=name, mi_stratified_sampling_ratio=1.0)
                    ok, s = safe(ie.conduct_feature_ranking, ay.astype(np.int8), ax.astype(np.int8), a_)
                    st.count('evaluations')
                    st.count('dispatch_cases')
                    if direct[True] < -1e-3:
                        st.count('dispatch_negative_scores')
                    if not ok:
                        st.violation({'Y': ty, 'X': tx, 'heuristic': name, 'dispatch': True}, f'exception {s}', {'kind': 'exception_dispatch'})
                    elif float(s) != direct[flag]:
                        st.violation({'Y': ty, 'X': tx, 'heuristic': name, 'dispatch': True}, f'conduct_feature_ranking({name}) = {float(s)!r}, estimator gives {direct[flag]!r}', {'kind': 'dispatch', 'heuristic': name})
                for name, flag in (('MI-numba-randomized', True), ('MI-numba-3mr', False), ('MI-numba', False)):
                    ok, s = safe(ie.numba_mi, ay.astype(np.int8), ax.astype(np.int8), name, 1.0)
                    st.count('evaluations')
                    st.count('flag_cases')
                    if not ok:
                        st.violation({'Y': ty, 'X': tx, 'heuristic': name}, f'exception {s}', {'kind': 'exception_numba_mi'})
                    elif float(s) != direct[flag]:
                        st.violation({'Y': ty, 'X': tx, 'heuristic': name}, f'numba_mi({name}) = {float(s)!r}, direct call with correction={flag} gives {direct[flag]!r}', {'kind': 'flag', 'heuristic': name})
    return st


def large_cases():
    """(name, Y, X): exact identity beyond the exhaustive scope: many classes (> 256), strata longer than 4096 rows, row orders that are not exchangeable"""
    from mc.checks.c09 import lcg_stream
    g = lcg_stream(17)
    out = []
    n = 700
    y = [next(g) % 300 for _ in range(n)]
    out.append(('classes300', y, [(v + next(g) % 3) % 5 for v in y]))
    out.append(('classes_all_distinct', list(range(900)), [(i * 7 + i // 50) % 3 for i in range(900)]))
    n = 10000
    drift = [(i // 100) % 7 for i in range(n)]
    out.append(('long_strata_sorted_target', drift, [0 if i < 6000 else 1 for i in range(n)]))
    out.append(('long_strata_interleaved', [(i // 37) % 11 for i in range(n)], [(i // 3 + next(g) % 2) % 2 for i in range(n)]))
    out.append(('long_strata_drift_vs_blocks', drift, [(i // 5000) for i in range(n)]))
    out.append(('three_long_strata', [(i * i // 1000) % 13 for i in range(15000)], [i % 3 for i in range(15000)]))
    return out


def _large(_):
    st = Stats()
    f = est.estimator()
    for name, y, x in large_cases():
        ay, ax = np.array(y, dtype=np.int32), np.array(x, dtype=np.int32)
        for flag in (True, False):
            ref = refs.corrected_mi(y, x) if flag else refs.plugin_mi(y, x)
            ok, s = safe(f, ay, ax, est._F1, flag)
            st.count('evaluations')
            st.count('large_cases')
            st.count('nontrivial')
            case = {'large': name, 'flag': flag}
            if not ok:
                st.violation(case, f'{name}: exception {s}', {'kind': 'exception'})
            elif not est.near(float(s), ref, 5e-5, 5e-5):
                st.violation(case, f'{name} (n={len(y)}, correction={flag}): score {float(s)!r}, reference {ref!r}', {'kind': 'large_value', 'flag': flag})
    return st


SEQ_VECS = [((0, 1, 2, 0, 1, 2, 3, 3), (0, 0, 1, 1, 0, 1, 0, 1)), ((0, 1, 2, 3, 4, 5, 6, 7), (0, 0, 0, 0, 1, 1, 1, 1))]
SEQ_MENU = [(vi, h, r) for vi in range(2) for h in ('MI-numba-randomized', 'MI-numba-3mr', 'MI-numba') for r in (1.0, 0.5)]


def seq_call(x):
    from outrank.algorithms import importance_estimator as ie
    vi, h, r = x
    y, xx = SEQ_VECS[vi]
    return float(ie.numba_mi(np.array(y, dtype=np.int8), np.array(xx, dtype=np.int8), h, r))


def _seqdiff(_):
    st = Stats()
    seqdiff.run(seq_call, SEQ_MENU, 2, st, lambda seq, pos: {'kind': 'seqdiff', 'seq': list(seq)}, {'kind': 'history_dependent'})
    return st


def run(ctx):
    tag, val = isolated(_seqdiff, None, timeout=600)     # calls the compiled estimator with a ratio < 1: in a child that may die
    if tag == 'ok':
        ctx.stats.merge(val)
    elif tag == 'harness':
        raise HarnessError(val)
    else:
        ctx.stats.violation({'kind': 'seqdiff', 'seq': []}, f'the process running numba_mi with a sampling ratio < 1 ended abnormally ({tag} {val})', {'kind': 'crash'})
    nmax = 8 if ctx.thorough else 6
    jobs = []
    for n in range(1, nmax + 1):
        for lo, hi in shards(enum.BELL[n], 64 if n >= 7 else (16 if n >= 5 else 1)):
            jobs.append((n, lo, hi))
    for st in pmap(_shard, jobs):
        ctx.stats.merge(st)
    W = 400 if ctx.thorough else 40
    seeds = range(ctx.seed * W, ctx.seed * W + W)
    rjobs = [(s, n) for s in seeds for n in (4000, 8192)]
    for st in pmap(_ranking, rjobs, chunksize=4):
        ctx.stats.merge(st)
    ctx.stats.merge(_flags(None))
    ctx.stats.merge(_large(None))
    ctx.extra['n_max'] = nmax
    ctx.extra['seed_window'] = [seeds[0], seeds[-1]]
    ctx.extra['uncorrected_misranks'] = int(ctx.stats.n['uncorrected_misranks'])
    if ctx.stats.n['uncorrected_misranks'] == 0:
        raise HarnessError('vacuous ranking corollary: the uncorrected score never misranks in this window')
    if ctx.stats.n['equal_sum_not_identical'] == 0:
        raise HarnessError('vacuous: no equal-sum non-identical pair generated')


def eval_case(case):
    if case.get('kind') == 'seqdiff':
        return seqdiff.replay(seq_call, SEQ_MENU, case['seq'])
    if 'large' in case:
        return [v['what'] for v in _large(None).violations if v['case']['large'] == case['large'] and v['case']['flag'] == case['flag']]
    f = est.estimator()
    st = Stats()
    if 'seed' in case:
        target, planted, noise = planted_case(case['seed'], case['n'], case['card'])
        sp = float(f(planted, target, est._F1, True))
        sn = float(f(noise, target, est._F1, True))
        return [] if sp > sn else [f'planted {sp!r} <= noise {sn!r}']
    ty, tx = tuple(case['Y']), tuple(case['X'])
    ay, ax = np.array(ty, dtype=np.int32), np.array(tx, dtype=np.int32)
    if 'heuristic' in case and case.get('dispatch'):
        from outrank.algorithms import importance_estimator as ie
        name = case['heuristic']
        s = float(ie.conduct_feature_ranking(ay.astype(np.int8), ax.astype(np.int8), SimpleNamespace(heuristic=name, mi_stratified_sampling_ratio=1.0)))
        d = float(f(ay, ax, est._F1, name == 'MI-numba-randomized'))
        return [] if s == d else [f'conduct_feature_ranking({name})={s!r} estimator={d!r}']
    if 'heuristic' in case:
        from outrank.algorithms import importance_estimator as ie
        name = case['heuristic']
        flag = name == 'MI-numba-randomized'
        s = float(ie.numba_mi(ay.astype(np.int8), ax.astype(np.int8), name, 1.0))
        d = float(f(ay, ax, est._F1, flag))
        return [] if s == d else [f'numba_mi({name})={s!r} direct={d!r}']
    check_one(f, ty, ay, tx, ax, st)
    return [v['what'] for v in st.violations]
