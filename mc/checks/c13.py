"""C13 - data-quality statistics are exact and independent of the batch split."""
from __future__ import annotations

import itertools
import json
import os
from collections import Counter

from mc import enum, harness
from mc.common import HarnessError, Stats, pmap, safe, shards, scratch_dir, rm_scratch

PROPERTY = 'C13'
LEVEL = 'model_checking'
RULE = ('state = the four process-global stores; event = one mini-batch handed to compute_cardinalities / compute_value_counts / compute_coverage. Every row sequence of length '
        'n<=4 (quick) / n<=5 (thorough) over two columns with cells {"", u, uu} in columns named c / cu (and {"", u, uü} for n <= 3) x EVERY composition of n into consecutive batches x rare-value thresholds {0,1,2} x histogram '
        'bounds {1,2,30000}; differential oracle (final stores of every composition == those of the single-batch history) + absolute oracle (exact recount); coverage family over '
        '{"", "{}", NA, u} x three missing-symbol sets; end-to-end family through the ranking task (name annotations, value_repetitions.json, rare_values.tsv). '
        'states = distinct (rows consumed, store contents) reached; transitions = batches applied. non-trivial = histories with >= 2 batches')
ASSUMPTIONS = ['cardinality sketch used far below its warm-up capacity (exact range); 32-bit hash collisions excluded by the statement']

CELLS = ['', 'u', 'uu']       # with the column names below, ('c','uu') and ('cu','u') concatenate to the same text
CELLS_UNI = ['', 'u', 'u\u00fc']   # 'uü' and 'u' differ only by a non-ASCII character (used for n <= 3)
COLS = ['c', 'cu']


def cr():
    from outrank import core_ranking
    return core_ranking


def mkdf(rows):
    import pandas as pd
    return pd.DataFrame([list(r) for r in rows], columns=COLS)


def run_counts(rows, comp, threshold):
    C = cr()
    harness.reset_state()
    args = harness.make_args(rare_value_count_upper_bound=threshold, task='identify_rare_values')
    pos = 0
    for part in comp:
        C.compute_value_counts(mkdf(rows[pos:pos + part]), args)
        pos += part
    return dict(C.GLOBAL_RARE_VALUE_STORAGE)


def run_card(rows, comp, bound):
    C = cr()
    harness.reset_state()
    pos = 0
    for part in comp:
        C.compute_cardinalities(mkdf(rows[pos:pos + part]), harness.NullBar(), bound)
        pos += part
    card = {k: len(v) for k, v in C.GLOBAL_CARDINALITY_STORAGE.items()}
    hist = {k: dict(v.default_counter) for k, v in C.GLOBAL_COUNTS_STORAGE.items()}
    return card, hist


def ref_rare(rows, threshold):
    c = Counter()
    for r in rows:
        for col, v in zip(COLS, r):
            c[(col, v)] += 1
    return {k: v for k, v in c.items() if v <= threshold}


def ref_card(rows):
    return {col: len({r[i] for r in rows if r[i]}) for i, col in enumerate(COLS)}


def ref_hist(rows, bound):
    """exact counter per column, or None when the bound was reached (then only 'never over-counts' holds, C15)"""
    out = {}
    for i, col in enumerate(COLS):
        vals = [r[i] for r in rows]
        out[col] = dict(Counter(vals)) if len(set(vals)) < bound else None
    return out


def judge_history(rows, comp, st, seen_states):
    """one history (rows cut by comp): all thresholds and bounds.  Returns list of (sig,msg)."""
    fails = []
    single = (len(rows),)
    for thr in (0, 1, 2):
        ok, got = safe(run_counts, rows, comp, thr)
        st.count('transitions', len(comp))
        if not ok:
            fails.append(({'kind': 'exception', 'fn': 'compute_value_counts'}, f'compute_value_counts raised {got}'))
            continue
        seen_states.add(('rare', thr, tuple(sorted(got.items()))))
        exp = ref_rare(rows, thr)
        if got != exp:
            ok1, one = safe(run_counts, rows, single, thr)
            kind = 'rare_split_dependent' if (ok1 and one == exp) else 'rare_wrong'
            fails.append(({'kind': kind, 'threshold': thr}, f'rare-value report with threshold {thr} after batches {list(comp)}: {got}, exact recount {exp}'))
    for bound in (1, 2, 30000):
        ok, got = safe(run_card, rows, comp, bound)
        st.count('transitions', len(comp))
        if not ok:
            fails.append(({'kind': 'exception', 'fn': 'compute_cardinalities'}, f'compute_cardinalities raised {got}'))
            continue
        card, hist = got
        seen_states.add(('card', bound, tuple(sorted(card.items())), tuple(sorted((k, tuple(sorted(v.items()))) for k, v in hist.items()))))
        if card != ref_card(rows):
            fails.append(({'kind': 'cardinality'}, f'cardinalities {card} after batches {list(comp)}, exact {ref_card(rows)}'))
        rh = ref_hist(rows, bound)
        for col in COLS:
            if rh[col] is not None and hist.get(col) != rh[col]:
                fails.append(({'kind': 'histogram', 'bound': bound}, f'value counts of {col} with bound {bound} after batches {list(comp)}: {hist.get(col)}, exact {rh[col]}'))
        if comp != single:
            ok1, one = safe(run_card, rows, single, bound)
            if ok1 and one != got:
                fails.append(({'kind': 'split_dependent', 'bound': bound}, f'cardinality/histogram stores depend on the batch split {list(comp)}: {got} vs single batch {one}'))
    return fails


def _hist_job(job):
    n, lo, hi = job[:3]
    st = Stats()
    seen = set()
    kinds = list(itertools.product(CELLS_UNI if len(job) > 3 else CELLS, repeat=2))
    comps = list(enum.compositions(n))
    for seq in itertools.islice(itertools.product(kinds, repeat=n), lo, hi):
        rows = [list(r) for r in seq]
        for comp in comps:
            st.count('evaluations')
            st.count('traces_validated')
            if len(comp) >= 2:
                st.count('nontrivial')
            for sig, msg in judge_history(rows, comp, st, seen):
                st.violation({'kind': 'history', 'rows': rows, 'batches': list(comp)}, msg, sig)
    st.count('states', len(seen))
    if lo == 0:
        st.sample({'kind': 'history', 'rows': [['u', 'v'], ['u', ''], ['u', 'v']], 'batches': [2, 1]})
    return st


def _coverage_job(_):
    C = cr()
    import pandas as pd
    st = Stats()
    cells = ['', '{}', 'NA', 'u', ' ', ' NA']
    for k in (1, 2, 3):
        for col in itertools.product(cells, repeat=k):
            for sym in (',{}', '{}', 'NA', 'NA,{}', ' , NA', ' '):     # symbols may consist of or contain blanks
                args = harness.make_args(missing_value_symbols=sym)
                df = pd.DataFrame({'c1': list(col), 'c2': ['u'] * k})
                ok, got = safe(C.compute_coverage, df, args)
                st.count('evaluations')
                st.count('transitions')
                st.count('coverage_cases')
                if not ok:
                    st.violation({'kind': 'coverage', 'column': list(col), 'symbols': sym}, f'compute_coverage raised {got}', {'kind': 'exception', 'fn': 'compute_coverage'})
                    continue
                miss = set(sym.split(','))
                exp = 100 * (1 - sum(1 for v in col if v in miss) / k)
                if abs(got['c1'] - exp) > 1e-9 or abs(got['c2'] - 100.0) > 1e-9 * (0 if 'u' in miss else 1) and 'u' not in miss:
                    st.violation({'kind': 'coverage', 'column': list(col), 'symbols': sym}, f'coverage {dict(got)} expected c1={exp}', {'kind': 'coverage'})
    st.count('states', 1)
    return st


def _e2e_job(job):
    from mc import pipeline
    st = Stats()
    for case in job:
        st.count('evaluations')
        st.count('traces_validated')
        st.count('e2e_cases')
        st.count('nontrivial')
        st.count('transitions', case['n_rows'] // case['minibatch_size'])
        for sig, msg in pipeline.judge_quality_e2e(case):
            st.violation(dict(case, kind='e2e'), msg, sig)
    st.count('states', len(job))
    return st


def _two_files(_):
    """two input files streamed in one run (estimate_importances_minibatches is called once per file): cardinalities, value counts and the rare-value store cover BOTH files"""
    from collections import Counter as C_
    from mc.common import scratch_dir as sd_, rm_scratch as rm_
    C = cr()
    st = Stats()
    d = sd_('c13f')
    try:
        files = [[['u', 'x'], ['v', 'x'], ['u', 'y'], ['w', '']], [['u', 'z'], ['q', 'x'], ['q', 'x'], ['', 'y']]]
        paths = []
        for i, rows in enumerate(files):
            p_ = os.path.join(d, f'part{i}.csv')
            with open(p_, 'w') as f:
                f.write('fa,fb\n' + ''.join(','.join(r) + '\n' for r in rows))
            paths.append(p_)
        for mb in (1, 2, 4):
            for thr in (1, 2):
                harness.reset_state()
                args = harness.make_args(data_source='csv-raw', minibatch_size=mb, subsampling=1, task='identify_rare_values', heuristic='Constant', rare_value_count_upper_bound=thr, label_column='fb')
                seen = []
                fails = []
                with harness.in_dir(d):
                    for p_, rows in zip(paths, files):
                        ok, r = safe(C.estimate_importances_minibatches, p_, ['fa', 'fb'], None, set(), args=args, data_encoding='utf-8', cpu_pool=harness.InlinePool(), delimiter=',', logger=harness.RecLogger())
                        st.count('evaluations')
                        st.count('transitions', len(rows) // mb)
                        st.count('traces_validated')
                        st.count('nontrivial')
                        if not ok:
                            fails.append(f'exception {r}')
                            break
                        seen += rows[:(len(rows) // mb) * mb]
                        card = {k: len(v) for k, v in r[2].items()}
                        exp_card = {h: len({x[i] for x in seen if x[i]}) for i, h in enumerate(['fa', 'fb'])}
                        hist = {k: dict(v.default_counter) for k, v in r[8].items()}
                        exp_hist = {h: dict(C_(x[i] for x in seen)) for i, h in enumerate(['fa', 'fb'])}
                        cnt = C_((h, x[i]) for x in seen for i, h in enumerate(['fa', 'fb']))
                        exp_rare = {k: v for k, v in cnt.items() if v <= thr}
                        if card != exp_card:
                            fails.append(f'after {os.path.basename(p_)}: cardinalities {card}, exact over the rows consumed in this run {exp_card}')
                        if hist != exp_hist:
                            fails.append(f'after {os.path.basename(p_)}: value counts {hist}, exact {exp_hist}')
                        if dict(r[6]) != exp_rare:
                            fails.append(f'after {os.path.basename(p_)}: rare-value store {dict(r[6])}, exact {exp_rare}')
                        if fails:
                            break
                st.count('states', 2)
                if fails:
                    st.violation({'kind': 'two_files', 'minibatch_size': mb, 'threshold': thr}, '; '.join(fails[:2]), {'kind': 'two_files', 'fail': fails[0].split(':')[1][:20] if ':' in fails[0] else fails[0][:20]})
    finally:
        rm_(d)
        harness.reset_state()
    return st


def e2e_cases(thorough):
    out = []
    for n_rows, mb in ((6, 2), (6, 3), (6, 6), (8, 2), (9, 3)):
        for variant in range(4 if thorough else 2):
            for task in ('ranking', 'identify_rare_values'):
                for via_cli in (False, True):
                    # thresholds below, at and above the mini-batch size; names with and without the (cardinality; coverage) annotation
                    for thr in ((1 + variant % 2, mb + 2) if task == 'identify_rare_values' else (1,)):
                        for annotate in (('True', 'False') if task == 'ranking' else ('True',)):
                            c = {'n_rows': n_rows, 'minibatch_size': mb, 'variant': variant, 'task': task, 'threshold': thr, 'annotate': annotate}
                            if via_cli:
                                c['via_cli'] = True
                            out.append(c)
    return out


def _dispatch(item):
    k, job = item
    return {'hist': _hist_job, 'cov': _coverage_job, 'e2e': _e2e_job, 'two_files': _two_files}[k](job)


def run(ctx):
    nmax = 5 if ctx.thorough else 4
    jobs = []
    for n in range(1, nmax + 1):
        tot = 9 ** n
        jobs += [('hist', (n, lo, hi)) for lo, hi in shards(tot, 256 if n >= 5 else (64 if n == 4 else 8))]
        if n <= 3:
            jobs += [('hist', (n, lo, hi, 'uni')) for lo, hi in shards(tot, 8)]
    jobs.append(('cov', None))
    jobs.append(('two_files', None))
    ec = e2e_cases(ctx.thorough)
    jobs += [('e2e', ec[i::8]) for i in range(8)]
    for st in pmap(_dispatch, jobs):
        ctx.stats.merge(st)
    ctx.extra['n_max'] = nmax
    if ctx.stats.n['nontrivial'] < 1000:
        raise HarnessError('vacuous')


def eval_case(case):
    st = Stats()
    if case['kind'] == 'history':
        return [m for _, m in judge_history([list(r) for r in case['rows']], tuple(case['batches']), st, set())]
    if case['kind'] == 'two_files':
        return [v['what'] for v in _two_files(None).violations if v['case']['minibatch_size'] == case['minibatch_size'] and v['case']['threshold'] == case['threshold']]
    if case['kind'] == 'coverage':
        import pandas as pd
        C = cr()
        col, sym = case['column'], case['symbols']
        got = C.compute_coverage(pd.DataFrame({'c1': col, 'c2': ['u'] * len(col)}), harness.make_args(missing_value_symbols=sym))
        exp = 100 * (1 - sum(1 for v in col if v in set(sym.split(','))) / len(col))
        return [] if abs(got['c1'] - exp) < 1e-9 else [f'coverage {got["c1"]} expected {exp}']
    if case['kind'] == 'e2e':
        from mc import pipeline
        return [m for _, m in pipeline.judge_quality_e2e(case)]
    return []
