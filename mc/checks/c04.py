"""C04 - subsampled estimation is memory-safe, deterministic, sample-only."""
from __future__ import annotations

import itertools
import json
import math
import os

import numpy as np

from mc import enum, est, harness, procs, refs
from mc.common import HarnessError, Stats, pmap, safe, shards, scratch_dir, rm_scratch, VERIF, isolated

PROPERTY = 'C04'
LEVEL = 'fault_enumeration'
RULE = ('(i) stratified_subsampling.py_func with numpy.empty replaced by a buffer whose never-written slots are filled from the poison alphabet {0, n-1, n, -1, 2^31, NaN}: '
        'every X in RGS(n), n<=7 (quick) / 8 (thorough), Y = row positions (reveals the selected rows), every dyadic ratio k/8, every fill of the unwritten slots (all combinations for <= 2 slots, '
        'uniform beyond); oracle: returned sample == reference prefix sample for EVERY fill; '
        '(ii) compiled mutual_info_estimator_numba in fresh interpreters after heap grooming with fill patterns {none,0,1,n,1e18,NaN,-1}: every (Y,X) in RGS(n)^2, n<=5 (quick) / 6 (thorough) x 7 ratios x both '
        'flags, 3 repetitions; oracles: normal exit, finite, identical across repetitions / fills / processes, uncorrected score == r * entropies on the reference sample, sample-only '
        '(altering Y outside the sample does not change the score); (iii) forwarding of the ratio through mixed_rank_graph. '
        'distinct_nontrivial = cases whose index buffer has at least one never-written slot or a stratum smaller than the quota')
ASSUMPTIONS = ['py_func semantics equal the compiled semantics except for memory safety, which the fresh-process runs observe',
               'heap grooming steers glibc chunk reuse for the size class of the index buffer; the measured hit rate is reported; arbitrary heap layouts are not enumerable',
               'dyadic ratios only, so floor(r*n) is the same in float32 and float64',
               'for the corrected score only determinism, finiteness and sample-only are required (the statement does not fix the row order inside the sample)']

RATIOS = [k / 8 for k in range(1, 8)]


class NpProxy:
    """numpy with `empty` returning a poisoned buffer"""

    def __init__(self, fills):
        self._fills = list(fills)
        self.empty_calls = 0

    def __getattr__(self, name):
        return getattr(np, name)

    def empty(self, shape, *a, **k):
        self.empty_calls += 1
        buf = np.empty(shape, *a, **k)
        flat = buf.reshape(-1)
        for i in range(flat.size):
            flat[i] = self._fills[i % len(self._fills)] if self._fills else 0
        return buf


def reference_sample(X, r):
    n = len(X)
    quota = int(math.floor(r * n))
    idx = refs.sample_indices(list(X), quota)
    return idx, quota


def unwritten_slots(X, r):
    idx, quota = reference_sample(X, r)
    if idx is None:
        return 0
    return quota - len(idx)


def run_pyfunc(Y, X, r, fills):
    from outrank.algorithms.feature_ranking import ranking_mi_numba as m
    fn = m.stratified_subsampling.py_func
    g = fn.__globals__
    vals = np.array(sorted(set(X)), dtype=np.int32)
    proxy = NpProxy(fills)
    old = g['np']
    g['np'] = proxy
    try:
        with np.errstate(all='ignore'):
            ys, xs = fn(np.array(Y, dtype=np.int32), np.array(X, dtype=np.int32), np.float32(r), vals)
    finally:
        g['np'] = old
    return [int(v) for v in ys], [int(v) for v in xs]


def fill_sets(u, n):
    alpha = [0.0, float(n - 1), float(n), -1.0, float(2 ** 31), float('nan')]
    if u == 0:
        return [[0.0]]
    if u <= 2:
        # the buffer is filled cyclically with the given list; slots are written front-to-back, the unwritten ones are the LAST u
        return [list(c) for c in itertools.product(alpha, repeat=u)]
    return [[a] for a in alpha]


def judge_pyfunc(X, r):
    """all fills for one (X, r); returns (fails, n_executions, u)"""
    n = len(X)
    Y = list(range(n))
    idx, quota = reference_sample(X, r)
    u = unwritten_slots(X, r)
    exp_y = Y if idx is None else idx
    exp_x = list(X) if idx is None else [X[i] for i in idx]
    fails = []
    runs = 0
    for fills in fill_sets(u, n):
        # place the poison on the trailing (never written) slots as well as everywhere else
        if idx is not None and quota > 0:
            pattern = [fills[(i - (quota - u)) % len(fills)] if i >= quota - u else fills[i % len(fills)] for i in range(quota)]
        else:
            pattern = fills
        ok, res = safe(run_pyfunc, Y, X, r, pattern)
        runs += 1
        if not ok:
            fails.append(({'kind': 'pyfunc_exception'}, f'X={list(X)} r={r}: stratified_subsampling raised {res} with the unwritten slots holding {fills}'))
            break
        ys, xs = res
        if ys != exp_y or xs != exp_x:
            fails.append(({'kind': 'pyfunc_sample'}, f'X={list(X)} r={r}: sampled rows {ys} (X values {xs}) with unwritten slots = {fills}; reference sample {exp_y}'))
            break
    return fails, runs, u


def large_vectors():
    """structured vectors with n >= 16 (sorting-based groupings behave differently from the hand-sized cases)"""
    out = []
    for n in (16, 17, 24, 33, 48):
        for k in (2, 3, 5):
            out.append(tuple((i * 7 + 3) % k for i in range(n)))
            out.append(tuple((i // max(1, n // k)) % k for i in range(n))[::-1])
            out.append(tuple(0 if (i * i + i // 3) % 4 else (i % k) for i in range(n)))
    return out


def _pyfunc_large(_):
    st = Stats()
    for X in large_vectors():
        lab = {v: i for i, v in enumerate(sorted(set(X)))}
        X = tuple(lab[v] for v in X)
        for r in RATIOS:
            fails, runs, u = judge_pyfunc(X, r)
            st.count('evaluations', runs)
            st.count('large_vector_cases')
            if u > 0:
                st.count('nontrivial')
            for sig, msg in fails:
                st.violation({'kind': 'pyfunc', 'X': list(X), 'r': r}, msg, dict(sig, large=True))
    return st


def _pyfunc_job(job):
    if job == 'large':
        return _pyfunc_large(None)
    n, lo, hi = job
    st = Stats()
    A = enum.rgs_list(n)
    for X in A[lo:hi]:
        for r in RATIOS:
            fails, runs, u = judge_pyfunc(X, r)
            st.count('evaluations', runs)
            idx, quota = reference_sample(X, r)
            if u > 0:
                st.count('nontrivial')
                st.count('cases_with_unwritten_slots')
            st.see('unwritten', u)
            for sig, msg in fails:
                st.violation({'kind': 'pyfunc', 'X': list(X), 'r': r}, msg, sig)
    if lo == 0:
        st.sample({'kind': 'pyfunc', 'X': list(A[-1]), 'r': 0.875})
    return st


FILLS = ['none', '0.0', '1.0', '7.0', '1e18', 'nan', '-1.0']


def worker_run(job):
    fill, nmax, root, tmo = job
    out = os.path.join(root, f'w_{fill}')
    prog = out + '.progress'
    rc, so, se = procs.run_fresh([os.path.join(VERIF, 'mc', 'c04_worker.py'), fill, str(nmax), out, prog], {'PYTHONHASHSEED': 0}, timeout=tmo)
    res = {'fill': fill, 'rc': rc, 'stderr': se[-400:]}
    try:
        res['last_case'] = json.loads(open(prog).read().strip())
    except Exception:
        res['last_case'] = None
    if rc == 0:
        res['scores'] = np.load(out + '.npy')
        res.update(json.load(open(out + '.json')))
    return res


def forwarding(st):
    """(iii) --mi_stratified_sampling_ratio reaches the estimator"""
    import pandas as pd
    from outrank import core_ranking as cr
    for n in (4, 6, 8):
        for X in enum.rgs_list(4):
            Xn = (list(X) * 2)[:n]
            Yn = [(i * 3 + 1) % 3 for i in range(n)]
            for r in (0.5, 0.75):
                harness.reset_state()
                df = pd.DataFrame({'f': [str(v) for v in Yn], 'label': [str(v) for v in Xn]})
                args = harness.make_args(mi_stratified_sampling_ratio=r, heuristic='MI-numba-randomized')
                ok, res = safe(cr.mixed_rank_graph, df, args, harness.InlinePool(), harness.NullBar())
                st.count('evaluations')
                st.count('forwarding_cases')
                case = {'kind': 'forward', 'Y': Yn, 'X': Xn, 'r': r}
                if not ok:
                    st.violation(case, f'mixed_rank_graph raised {res}', {'kind': 'forward_exception'})
                    continue
                got = {(a, b): float(s) for a, b, s in res.triplet_scores}
                cy = [sorted(set(Yn)).index(v) for v in Yn]
                cx = [sorted(set(Xn)).index(v) for v in Xn]
                exp = est.score(cy, cx, r, True)
                if ('f', 'label') not in got or abs(got[('f', 'label')] - exp) > 1e-9:
                    st.violation(case, f'pipeline score {got.get(("f", "label"))!r} with ratio {r} != direct estimator call {exp!r}', {'kind': 'forward_value'})
                # the label scored against itself goes through the same sampling
                exp_self = est.score(cx, cx, r, True)
                if ('label', 'label') in got and abs(got[('label', 'label')] - exp_self) > 1e-9:
                    st.violation(case, f'pipeline self-pair score {got[("label", "label")]!r} with ratio {r} != direct estimator call {exp_self!r}', {'kind': 'forward_self_pair'})


def forwarding_cli(st):
    """the flag as given on the real command line must reach the estimator (whole task, argparse namespace)"""
    from mc import pipeline
    for n, ratio in ((8, 0.5), (12, 0.75), (12, 0.25), (9, 0.875)):
        Xn = [(i * 5 + i // 3) % 3 for i in range(n)]
        Yn = [(i * 3 + 1 + i // 4) % 4 for i in range(n)]
        text = 'f,label\n' + ''.join(f'{y},{x}\n' for y, x in zip(Yn, Xn))
        over = dict(task='ranking', minibatch_size=n, subsampling=1, heuristic='MI-numba-randomized', mi_stratified_sampling_ratio=ratio, include_cardinality_in_feature_names='False', target_ranking_only='True')
        for via_cli in (False, True):
            ok, obs = safe(pipeline.run_task, text, over, via_cli=via_cli)
            st.count('evaluations')
            st.count('forwarding_cases')
            case = {'kind': 'forward_cli', 'n': n, 'r': ratio, 'via_cli': via_cli}
            if not ok or not obs.get('pairwise'):
                st.violation(case, f'task failed: {obs if not ok else obs.get("exit")}', {'kind': 'forward_exception'})
                continue
            got = {(r[0], r[1]): float(r[2]) for r in obs['pairwise'][1:]}
            cy = [sorted({str(v) for v in Yn}).index(str(v)) for v in Yn]
            cx = [sorted({str(v) for v in Xn}).index(str(v)) for v in Xn]
            exp = est.score(cy, cx, ratio, True)
            plain = est.score(cy, cx, 1.0, True)
            if abs(exp - plain) < 1e-9:
                st.count('forwarding_indistinguishable')
            if abs(got.get(('f', 'label'), 9e9) - exp) > 1e-6:
                st.violation(case, f'--mi_stratified_sampling_ratio {ratio} ({"command line" if via_cli else "namespace"}): task score {got.get(("f", "label"))!r}, direct estimator call with that ratio {exp!r} (without sampling {plain!r})',
                             {'kind': 'forward_value', 'via_cli': via_cli})


def _forwarding_job(_):
    st = Stats()
    forwarding(st)
    return st


def _forwarding_cli_job(_):
    st = Stats()
    forwarding_cli(st)
    return st


def run(ctx):
    # (i)
    nmax = 8 if ctx.thorough else 7
    jobs = []
    for n in range(1, nmax + 1):
        jobs += [(n, lo, hi) for lo, hi in shards(enum.BELL[n], 64 if n >= 7 else 8)]
    jobs.append('large')
    for st in pmap(_pyfunc_job, jobs):
        ctx.stats.merge(st)
    # (iii)
    # these families call the compiled estimator with a ratio < 1 inside this interpreter: run them in a child that may die
    for name, fn in (('forward', _forwarding_job), ('forward_cli', _forwarding_cli_job)):
        tag, val = isolated(fn, None, timeout=600)
        if tag == 'ok':
            ctx.stats.merge(val)
        elif tag == 'harness':
            raise HarnessError(val)
        else:
            ctx.stats.violation({'kind': name, 'isolated': True}, f'the process running the {name} family ' + ('did not terminate within the time limit' if tag == 'timeout' else f'died with status {val} (signal {-val if isinstance(val, int) and val < 0 else val})')
                                + ' while calling the estimator with a sampling ratio < 1', {'kind': 'crash', 'family': name})
    # (ii)
    root = scratch_dir('c04')
    try:
        wn = 6 if ctx.thorough else 5
        results = procs.run_many([(f, wn, root, 1500 if ctx.thorough else 240) for f in FILLS], worker_run, workers=len(FILLS))
        base = None
        groom = {}
        for r in results:
            ctx.stats.count('fresh_processes')
            if r['rc'] != 0:
                lc = r.get('last_case') or {}
                ctx.stats.violation({'kind': 'compiled', **{k: lc.get(k) for k in ('Y', 'X', 'r', 'c', 'altered')}, 'fill': r['fill']},
                                    f'fresh interpreter with heap fill {r["fill"]} ended with status {r["rc"]} ({"did not terminate within the time limit" if r["rc"] == -999 else ("signal " + str(-r["rc"]) if r["rc"] < 0 else "error")}) while executing {lc}: {r["stderr"][-200:]}',
                                    {'kind': 'hang' if r['rc'] == -999 else 'crash'})
                continue
            ctx.stats.count('evaluations', int(r['cases']) * 3 + int(r['sample_only_checks']))
            ctx.stats.count('compiled_cases', int(r['cases']))
            ctx.stats.count('sample_only_checks', int(r['sample_only_checks']))
            groom[r['fill']] = [r['groom_hits'], r['groom_total']]
            for p in r['problems']:
                ctx.stats.violation(dict(p['case'], kind='compiled'), p['what'] + f' [heap fill {r["fill"]}]', {'kind': p['kind']})
            if base is None:
                base = r
            elif len(r['scores']) != len(base['scores']) or not np.array_equal(r['scores'], base['scores'], equal_nan=True):
                k = int(np.argmax(r['scores'] != base['scores'])) if len(r['scores']) == len(base['scores']) else -1
                ctx.stats.violation({'kind': 'compiled_cross', 'fill': r['fill'], 'case_index': k},
                                    f'scores differ between processes/heap fills ({base["fill"]} vs {r["fill"]}) at case #{k}: {base["scores"][k] if k >= 0 else "?"} vs {r["scores"][k] if k >= 0 else "?"}',
                                    {'kind': 'fill_dependent'})
        ctx.extra['groom_hit_rate'] = {k: (v[0] / v[1] if v[1] else None) for k, v in groom.items()}
        ctx.extra['compiled_n_max'] = wn
    finally:
        rm_scratch(root)
    ctx.extra['pyfunc_n_max'] = nmax
    if ctx.stats.n['cases_with_unwritten_slots'] < 100:
        raise HarnessError('vacuous: no case with never-written slots')


def eval_case(case):
    k = case['kind']
    if k == 'pyfunc':
        fails, _, _ = judge_pyfunc(tuple(case['X']), case['r'])
        return [m for _, m in fails]
    if k in ('forward_cli', 'forward'):
        tag, val = isolated(_forwarding_cli_job if k == 'forward_cli' else _forwarding_job, None, timeout=600)
        if tag == 'ok':
            return [v['what'] for v in val.violations]
        return [f'the process running the {k} family ended abnormally: {tag} {val}']
    # compiled: re-run the single case in a fresh interpreter (a crash must not take the runner down)
    Y, X, r, c = case.get('Y'), case.get('X'), case.get('r'), case.get('c')
    if Y is None:
        return ['no case recorded']
    if case.get('altered'):
        i, v = case['altered']
        Y = list(Y)
        Y[i] = v
    code = ('import numpy as np, sys\nfrom outrank.algorithms.feature_ranking import ranking_mi_numba as m\n'
            f'Y=np.array({list(Y)},dtype=np.int32); X=np.array({list(X)},dtype=np.int32)\n'
            f'out=[float(m.mutual_info_estimator_numba(Y,X,np.float32({r}),{bool(c)})) for _ in range(3)]\nprint(out)\n')
    rc, so, se = procs.run_fresh(['-c', code], {'PYTHONHASHSEED': 0})
    if rc != 0:
        return [f'fresh interpreter ended with status {rc}: {se[-200:]}']
    vals = eval(so.strip().splitlines()[-1])
    fails = []
    if len(set(map(repr, vals))) != 1 or not all(math.isfinite(v) for v in vals):
        fails.append(f'scores {vals}')
    idx, quota = reference_sample(tuple(X), r)
    if not c and not fails:
        from outrank.algorithms.feature_ranking import ranking_mi_numba as m
        ax, ay = np.array(X, dtype=np.int32), np.array(Y, dtype=np.int32)
        v_, c_ = m.numba_unique(ax)
        ii = np.arange(len(X)) if idx is None else np.array(idx)
        exp = float(np.float32(r) * m.compute_entropies(ax[ii], ay[ii], len(X), v_, c_, False))
        if abs(vals[0] - exp) > 1e-6 + 1e-6 * abs(exp):
            fails.append(f'score {vals[0]!r} != r * entropies on the reference sample {exp!r}')
    return fails
