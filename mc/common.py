"""Shared bookkeeping for all checks: statistics, evidence, replay files, known findings, parallel map.

Every check module exposes
    PROPERTY, LEVEL ('exploration' | 'fault_enumeration' | 'model_checking'), RULE (str)
    run(ctx)            -- enumerate the declared space completely, call ctx.stats.* / ctx.violation(...)
    eval_case(case)     -- (re-)execute ONE json-serialisable case against the real code, return list of failure strings
The runner (mc/run.py) turns that into exit status, VIOLATION / KNOWN-FINDING lines and the evidence file.
"""
from __future__ import annotations

import hashlib
import json
import math
import multiprocessing as mp
import os
import shutil
import sys
import time
import traceback
from collections import Counter, defaultdict

VERIF = os.path.dirname(os.path.dirname(os.path.abspath(__file__)))
SCRATCH_ROOT = os.path.join(VERIF, '.scratch')
NPROC = int(os.environ.get('VERIF_PROCS', '0')) or min(16, os.cpu_count() or 1)
MAX_KEPT_VIOLATIONS = 40


class HarnessError(Exception):
    """Something in the verification machinery (not in outrank) is wrong; exit status 2."""


def jsonable(o):
    """Best-effort conversion of numpy / tuples / sets into plain JSON values."""
    try:
        import numpy as np
    except Exception:  # pragma: no cover
        np = None
    if isinstance(o, dict):
        return {str(k): jsonable(v) for k, v in o.items()}
    if isinstance(o, (list, tuple)):
        return [jsonable(v) for v in o]
    if isinstance(o, (set, frozenset)):
        return sorted((jsonable(v) for v in o), key=repr)
    if np is not None:
        if isinstance(o, np.ndarray):
            return jsonable(o.tolist())
        if isinstance(o, np.generic):
            return jsonable(o.item())
    if isinstance(o, float):
        if math.isnan(o):
            return 'NaN'
        if math.isinf(o):
            return 'Infinity' if o > 0 else '-Infinity'
        return o
    if isinstance(o, (int, str, bool)) or o is None:
        return o
    if isinstance(o, bytes):
        return o.decode('latin1')
    return repr(o)


class Stats:
    """Mergeable counters.  n: summed integers; sets: unioned (reported as sizes); samples/violations: capped lists."""

    def __init__(self):
        self.n = Counter()
        self.sets = defaultdict(set)
        self.samples = []
        self.violations = []
        self.notes = []

    def count(self, key, k=1):
        self.n[key] += k

    def see(self, key, value):
        s = self.sets[key]
        if len(s) < 200000:
            s.add(value)

    def sample(self, case, cap=3):
        if len(self.samples) < cap:
            self.samples.append(jsonable(case))

    def violation(self, case, what, sig=None):
        """Record a violation.  Violations are grouped by signature (a coarse, json-able description of the class
        of failure, also used to match known findings); the first case of each class is kept as the replay."""
        self.n['violations'] += 1
        sig = jsonable(sig or {'what': str(what)[:80]})
        key = json.dumps(sig, sort_keys=True)
        for v in self.violations:
            if v['key'] == key:
                v['count'] += 1
                return
        if len(self.violations) < MAX_KEPT_VIOLATIONS:
            self.violations.append({'key': key, 'case': jsonable(case), 'what': str(what)[:2000], 'sig': sig, 'count': 1})
        else:
            self.n['violation_classes_dropped'] += 1

    def merge(self, other):
        self.n.update(other.n)
        for k, v in other.sets.items():
            self.sets[k] |= v
        for s in other.samples:
            if len(self.samples) < 6:
                self.samples.append(s)
        for v in other.violations:
            for w in self.violations:
                if w['key'] == v['key']:
                    w['count'] += v['count']
                    break
            else:
                if len(self.violations) < MAX_KEPT_VIOLATIONS:
                    self.violations.append(dict(v))
                else:
                    self.n['violation_classes_dropped'] += 1
        self.notes += other.notes
        return self


def blames_code_under_test(tb_text):
    """an uncaught exception whose traceback passes through the outrank package (the innermost frames are there or in a library it called)"""
    lines = [l for l in tb_text.splitlines() if l.strip().startswith('File ')]
    for l in reversed(lines):
        if '/verif/' in l or '/mc/' in l:
            return False          # innermost frames belong to the harness: a harness error
        if '/outrank/' in l:
            return True
    return False


def uncaught_as_violation(exc, tb_text, item):
    st = Stats()
    st.count('evaluations')
    st.violation({'kind': 'uncaught', 'job': repr(item)[:300]},
                 f'the code under test raised {type(exc).__name__}: {exc} (not caught by any oracle of this family); traceback tail: ' + ' | '.join(tb_text.strip().splitlines()[-6:]),
                 {'kind': 'uncaught_exception', 'exc': type(exc).__name__})
    return st


def _pmap_worker(payload):
    func, item = payload
    try:
        return ('ok', func(item))
    except HarnessError as e:
        return ('harness', f'{e}\n{traceback.format_exc()}')
    except BaseException as e:  # noqa
        tb = traceback.format_exc()
        if blames_code_under_test(tb):
            # a crash of the code under test is a violation with the executing job as the case, never a harness error
            return ('ok', uncaught_as_violation(e, tb, item))
        return ('harness', f'{type(e).__name__}: {e}\n{tb}')


def pmap(func, items, procs=None, chunksize=1, job_timeout=None):
    """Run func over items in forked worker processes (fork keeps the already imported/compiled outrank).
    func must be a module-level function.  Results come back in input order."""
    items = list(items)
    procs = procs or NPROC
    if procs <= 1 or len(items) <= 1:
        out = []
        for it in items:
            tag, val = _pmap_worker((func, it))
            if tag != 'ok':
                raise HarnessError(val)
            out.append(val)
        return out
    from concurrent.futures import ProcessPoolExecutor
    from concurrent.futures.process import BrokenProcessPool
    ctx = mp.get_context('fork')
    from concurrent.futures import TimeoutError as FutTimeout
    res = [None] * len(items)
    job_timeout = job_timeout or int(os.environ.get('VERIF_JOB_TIMEOUT', '3000'))
    ex = ProcessPoolExecutor(max_workers=min(procs, len(items)), mp_context=ctx)
    hung = False
    try:
        futs = [ex.submit(_pmap_worker, (func, it)) for it in items]
        for i, f in enumerate(futs):
            try:
                res[i] = f.result(timeout=job_timeout)
            except BrokenProcessPool:
                res[i] = None
            except FutTimeout:
                st = Stats()
                st.count('evaluations')
                st.violation({'kind': 'worker_hung', 'job': repr(items[i])[:300]}, f'the worker process executing {repr(items[i])[:200]} did not finish within {job_timeout} s (code under test does not terminate)', {'kind': 'hang'})
                res[i] = ('ok', st)
                hung = True
    finally:
        if hung:
            for p_ in list(getattr(ex, '_processes', {}).values()):
                try:
                    p_.kill()
                except Exception:  # noqa
                    pass
        ex.shutdown(wait=not hung, cancel_futures=True)
    out = []
    for i, r in enumerate(res):
        if r is None:
            # a worker process died (signal inside compiled code under test): re-run this job alone in a child that may die, to attribute the crash
            tag, val = isolated(func, items[i], timeout=1800)
            if tag in ('crash', 'timeout'):
                st = Stats()
                st.count('evaluations')
                st.violation({'kind': 'worker_died', 'job': repr(items[i])[:300]},
                             f'the worker process executing {repr(items[i])[:200]} ' + ('did not terminate' if tag == 'timeout' else f'died with status {val}') + ' inside the code under test',
                             {'kind': 'crash'})
                r = ('ok', st)
            else:
                r = (tag, val)
        tag, val = r
        if tag != 'ok':
            raise HarnessError(val)
        out.append(val)
    return out


def _isolated_child(conn, func, arg):
    try:
        conn.send(_pmap_worker((func, arg)))
    finally:
        conn.close()


def isolated(func, arg, timeout=600):
    """Run func(arg) in one forked child and survive its death: returns ('ok', value) | ('harness', text) | ('crash', exitcode) | ('timeout', None).
    For families that call compiled code which may read out of bounds: a signal in the child must become an observation, not the end of the check."""
    ctx = mp.get_context('fork')
    parent, child = ctx.Pipe(duplex=False)
    p = ctx.Process(target=_isolated_child, args=(child, func, arg))
    p.start()
    child.close()
    out = None
    if parent.poll(timeout):
        try:
            out = parent.recv()
        except EOFError:
            out = None
    p.join(5)
    if p.is_alive():
        p.kill()
        p.join()
        return ('timeout', None)
    if out is None:
        return ('crash', p.exitcode)
    return out


def merge_all(stats_list):
    total = Stats()
    for s in stats_list:
        total.merge(s)
    return total


def shards(n_items, n_shards):
    """Split range(n_items) into at most n_shards contiguous (lo, hi) ranges."""
    n_shards = max(1, min(n_shards, n_items))
    step = -(-n_items // n_shards)
    return [(lo, min(n_items, lo + step)) for lo in range(0, n_items, step)]


# ---------------------------------------------------------------------------------------------
# scratch directories

def scratch_dir(tag=''):
    d = os.path.join(SCRATCH_ROOT, f'{os.getpid()}_{tag}_{time.time_ns()}')
    os.makedirs(d, exist_ok=True)
    return d


def rm_scratch(d):
    shutil.rmtree(d, ignore_errors=True)


# ---------------------------------------------------------------------------------------------
# findings, replay, evidence

def load_known_findings():
    path = os.path.join(VERIF, 'known_findings.json')
    if not os.path.exists(path):
        return []
    with open(path) as f:
        return json.load(f).get('findings', [])


def match_known(pid, sig, findings):
    for f in findings:
        if f.get('property') != pid or f.get('status') != 'known':
            continue
        m = f.get('match', {})
        if m and all(sig.get(k) == v for k, v in m.items()):
            return f
    return None


def write_replay(pid, violation):
    d = os.path.join(VERIF, 'replays', pid)
    os.makedirs(d, exist_ok=True)
    blob = json.dumps(violation, sort_keys=True, ensure_ascii=True)
    h = hashlib.sha1(blob.encode()).hexdigest()[:12]
    path = os.path.join(d, f'{h}.json')
    with open(path, 'w') as f:
        json.dump({'property': pid, **violation}, f, indent=1, sort_keys=True)
    return path


def write_evidence(pid, tier, seed, level, coverage, assumptions, wall_s, violations):
    os.makedirs(os.path.join(VERIF, 'evidence'), exist_ok=True)
    ev = {
        'property_id': pid,
        'tier': tier,
        'seed': int(seed),
        'level': level,
        'coverage': jsonable(coverage),
        'assumptions': list(assumptions),
        'wall_s': round(float(wall_s), 3),
        'violations': int(violations),
    }
    path = os.path.join(VERIF, 'evidence', f'{pid}.json')
    tmp = path + f'.tmp{os.getpid()}'
    with open(tmp, 'w') as f:
        json.dump(ev, f, indent=1, sort_keys=True)
    os.replace(tmp, path)
    return path


def safe(fn, *a, **k):
    """Call code under test; an exception is an observation (-> violation), never a harness error."""
    try:
        return True, fn(*a, **k)
    except BaseException as e:  # noqa
        if isinstance(e, (KeyboardInterrupt, HarnessError)):
            raise
        return False, f'{type(e).__name__}: {e}'


def eprint(*a):
    print(*a, file=sys.stderr, flush=True)
