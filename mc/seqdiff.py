"""Non-initial states: sequence differential.

Many entry points of outrank are called once per mini-batch / per line / per run inside one long-lived process.  For such an entry
point `call(x) -> observation` and a small menu of inputs, every sequence of at most `depth` calls is executed in ONE process state
(no reset in between) and the observation of each call is compared with the observation the same input gives in a pristine state
(every module-level container of every outrank module restored to its import-time content, random generators re-seeded).  A
difference means the result depends on the call history (stale cache, accumulator, leaked scratch state) - a differential oracle
that needs no hand-written expected value.
"""
from __future__ import annotations

import copy
import itertools
import json
import random
import sys
from collections import deque

import numpy as np

from mc.common import jsonable, safe

_PRISTINE = None


def _containers():
    out = []
    for name, mod in sorted(sys.modules.items()):
        if not (name == 'outrank' or name.startswith('outrank.')) or mod is None:
            continue
        for attr, val in sorted(vars(mod).items()):
            if attr.startswith('__'):
                continue
            if isinstance(val, (dict, set, list, deque)):
                out.append((name, attr, val))
    return out


def _copy(v):
    try:
        return copy.deepcopy(v)
    except Exception:
        return copy.copy(v)


def remember_pristine():
    """call once, before any outrank function ran in this process (the runner does it right after importing outrank)"""
    global _PRISTINE
    if _PRISTINE is None:
        cs = _containers()
        tracked = {id(v) for _, _, v in cs}
        _PRISTINE = {}
        for n, a, v in cs:
            if isinstance(v, dict):
                shallow = dict(v)
            else:
                shallow = list(v)
            _PRISTINE[(n, a)] = (shallow, _copy(v), tracked)


def _restore_value(orig, deep, tracked):
    # a value that is itself a tracked module-level container keeps its identity (it is restored on its own)
    return orig if id(orig) in tracked else _copy(deep)


def pristine():
    """restore every module-level container to its import-time content; containers created later are emptied"""
    remember_pristine()
    for n, a, v in _containers():
        rec = _PRISTINE.get((n, a))
        if rec is None:
            v.clear()
            continue
        shallow, deep, tracked = rec
        if isinstance(v, dict):
            v.clear()
            for k, ov in shallow.items():
                v[k] = _restore_value(ov, deep[k], tracked)
        elif isinstance(v, set):
            v.clear()
            v.update(deep)
        else:
            v.clear()
            v.extend(_restore_value(ov, dv, tracked) for ov, dv in zip(shallow, list(deep)))
    random.seed(a=123, version=2)
    np.random.seed(123)


def obs_key(o):
    return json.dumps(jsonable(o), sort_keys=True, default=repr)


def run(call, menu, depth, stats, case_of, sig, reseed=True, count_key='seqdiff_calls'):
    """call(x) -> observation (json-able).  menu: list of inputs.  All sequences of length 1..depth."""
    base = {}
    for i, x in enumerate(menu):
        pristine()
        ok, o = safe(call, x)
        base[i] = ('ok', obs_key(o)) if ok else ('exc', str(o))
    for d in range(2, depth + 1):
        for seq in itertools.product(range(len(menu)), repeat=d):
            pristine()
            for pos, i in enumerate(seq):
                if reseed:
                    # the random generators are part of the input of a call, not of its history
                    random.seed(a=123, version=2)
                    np.random.seed(123)
                ok, o = safe(call, menu[i])
                got = ('ok', obs_key(o)) if ok else ('exc', str(o))
                stats.count('evaluations')
                stats.count(count_key)
                if pos >= 1:
                    stats.count('nontrivial')
                if got != base[i]:
                    stats.violation(case_of(seq, pos), f'call #{pos + 1} of the sequence {list(seq)} (input {i}) gives a result different from the same call in a pristine process state: '
                                                        f'{got[1][:160]} vs {base[i][1][:160]}', sig)
                    break
    pristine()


def replay(call, menu, seq, reseed=True):
    """re-execute one sequence; returns failure strings"""
    base = {}
    for i in set(seq):
        pristine()
        ok, o = safe(call, menu[i])
        base[i] = ('ok', obs_key(o)) if ok else ('exc', str(o))
    pristine()
    fails = []
    for pos, i in enumerate(seq):
        if reseed:
            random.seed(a=123, version=2)
            np.random.seed(123)
        ok, o = safe(call, menu[i])
        got = ('ok', obs_key(o)) if ok else ('exc', str(o))
        if got != base[i]:
            fails.append(f'call #{pos + 1} of {list(seq)} differs from the pristine-state result: {got[1][:200]} vs {base[i][1][:200]}')
            break
    pristine()
    return fails
