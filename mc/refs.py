"""Boring float64 reference models (the oracles)."""
from __future__ import annotations

import math
from collections import Counter, defaultdict


def entropy_counts(counts, total):
    h = 0.0
    for c in counts:
        if c:
            p = c / total
            h -= p * math.log(p)
    return h


def entropy(v):
    return entropy_counts(Counter(v).values(), len(v))


def plugin_mi(Y, X):
    """Plug-in Shannon mutual information in nats from the joint contingency table."""
    n = len(Y)
    joint = Counter(zip(X, Y))
    cx = Counter(X)
    cy = Counter(Y)
    mi = 0.0
    for (x, y), c in joint.items():
        mi += (c / n) * math.log(c * n / (cx[x] * cy[y]))
    return mi


def cond_entropy(Y, X):
    """H(Y|X)"""
    n = len(Y)
    groups = defaultdict(list)
    for y, x in zip(Y, X):
        groups[x].append(y)
    h = 0.0
    for x, ys in groups.items():
        h += (len(ys) / n) * entropy(ys)
    return h


def displaced(Y, X):
    """Per stratum of X: Y read at positions advanced cyclically by the stratum size.  Returns H(Y*|X)."""
    n = len(Y)
    pos = defaultdict(list)
    for i, x in enumerate(X):
        pos[x].append(i)
    h = 0.0
    for x, idx in pos.items():
        s = len(idx)
        ystar = [Y[(i + s) % n] for i in idx]
        h += (s / n) * entropy(ystar)
    return h


def corrected_mi(Y, X):
    """Reference for MI-numba-randomized at ratio 1: H(Y*|X) - H(Y|X); identical vectors -> H(Y)."""
    if list(Y) == list(X):
        return entropy(Y)
    return displaced(Y, X) - cond_entropy(Y, X)


def score_ref(Y, X, correction):
    return corrected_mi(Y, X) if correction else plugin_mi(Y, X)


def sample_indices(X, n_total_quota):
    """Reference sample of C04: for each distinct value of X in ascending order the first q positions carrying it,
    q = floor(quota / #values); None when q == 0 (everything is used)."""
    vals = sorted(set(X))
    q = n_total_quota // len(vals)
    if q == 0:
        return None
    idx = []
    for v in vals:
        k = 0
        for i, x in enumerate(X):
            if x == v:
                idx.append(i)
                k += 1
                if k == q:
                    break
    return idx


def close(a, b, atol, rtol=0.0):
    if isinstance(a, float) and isinstance(b, float) and math.isnan(a) and math.isnan(b):
        return True
    return abs(a - b) <= atol + rtol * abs(b)
