"""Driver for the complete ranking task (outrank_task_conduct_ranking) with recording wrappers, plus reference batch semantics."""
from __future__ import annotations

import csv
import io
import json
import math
import os
import statistics
import warnings

import numpy as np

from mc import harness
from mc.common import safe, scratch_dir, rm_scratch


class LogModule:
    """stands in for the `logging` module inside outrank.task_ranking (it passes the module itself as logger)"""

    def __init__(self):
        self.msgs = []

    def info(self, m, *a):
        self.msgs.append(str(m))

    warning = warn = error = debug = info

    def invalid_count(self):
        n = 0
        for m in self.msgs:
            if m.startswith('Detected ') and 'invalid lines' in m:
                n = int(m.split()[1])
        return n


def read_tsv(path):
    if not os.path.exists(path):
        return None
    with open(path, encoding='utf-8', newline='') as f:
        rows = list(csv.reader(f, delimiter='\t'))
    return rows


def run_task(file_text, over, pool=None, data_name='data.csv', keep_dir=False, pool_factory=None, via_cli=False, reset=True, relative=False, tolerate_exception=False):
    """Run the real ranking task on a CSV given as text.  Returns a dict of observations."""
    from outrank import core_ranking as cr
    from outrank import task_ranking as tr
    d = scratch_dir('task')
    obs = {'batches': [], 'batch_triplets': [], 'checkpoints': [], 'exit': None, 'exception': None}
    try:
        with open(os.path.join(d, data_name), 'w', encoding='utf-8', newline='') as f:
            f.write(file_text)
        kw = dict(data_path=d, data_source='csv-raw', output_folder=os.path.join(d, 'out'), disable_tqdm='True', num_threads=1)
        if relative:
            # the task is started from the data directory with relative paths, as a user at a shell would
            kw['data_path'] = '.'
            kw['output_folder'] = 'out'
        kw.update(over)
        args = harness.make_args(**kw)
        if reset:
            harness.reset_state()
        log = LogModule()
        the_pool = pool if pool is not None else harness.InlinePool()
        orig = dict(Pool=tr.Pool, logging=tr.logging, cbr=cr.compute_batch_ranking, ckpt=cr.checkpoint_importances_df, eim=tr.estimate_importances_minibatches)

        def rec_cbr(line_tmp_storage, *a, **k):
            obs['batches'].append([list(r) for r in line_tmp_storage])
            out = orig['cbr'](line_tmp_storage, *a, **k)
            obs['batch_triplets'].append([(x, y, float(s)) for x, y, s in out[0].triplet_scores])
            return out

        def rec_ckpt(importances):
            r = orig['ckpt'](importances)      # wrappers are transparent: same arguments in, same value out
            obs['checkpoints'].append((len(obs['batches']), read_tsv('ranking_checkpoint_tmp.tsv')))
            return r

        def rec_eim(**k):
            out = orig['eim'](**k)
            obs['returned'] = out
            return out

        tr.Pool = pool_factory if pool_factory is not None else (lambda n: the_pool)
        tr.logging = log
        cr.compute_batch_ranking = rec_cbr
        cr.checkpoint_importances_df = rec_ckpt
        tr.estimate_importances_minibatches = rec_eim
        try:
            with harness.in_dir(d), warnings.catch_warnings():
                warnings.simplefilter('ignore')
                with np.errstate(all='ignore'):
                    try:
                        if via_cli:
                            # the real command line: argparse in outrank.__main__.main() builds the namespace
                            import sys
                            import outrank.__main__ as cli
                            argv = ['outrank']
                            for k_, v_ in kw.items():
                                if v_ is not None:
                                    argv += ['--' + k_, str(v_)]
                            old_argv = sys.argv
                            sys.argv = argv
                            try:
                                cli.main()
                            finally:
                                sys.argv = old_argv
                        else:
                            tr.outrank_task_conduct_ranking(args)
                    except SystemExit as e:
                        obs['exit'] = str(e.code)
                    except Exception as e:  # noqa - recorded; the judges decide what an exception of the task means for their property
                        if not tolerate_exception:
                            raise
                        obs['exception'] = f'{type(e).__name__}: {e}'
                    obs['checkpoint_left_behind'] = os.path.exists('ranking_checkpoint_tmp.tsv')
        finally:
            tr.Pool = orig['Pool']
            tr.logging = orig['logging']
            cr.compute_batch_ranking = orig['cbr']
            cr.checkpoint_importances_df = orig['ckpt']
            tr.estimate_importances_minibatches = orig['eim']
        obs['invalid'] = log.invalid_count()
        out = os.path.join(d, 'out')
        obs['pairwise'] = read_tsv(os.path.join(out, 'pairwise_ranks.tsv'))
        obs['rare_values'] = read_tsv(os.path.join(out, 'rare_values.tsv'))
        obs['mrmr'] = read_tsv(os.path.join(out, '3mr_ranks.tsv'))
        for nm in ('value_repetitions.json', 'combination_estimation_counts.json'):
            p = os.path.join(out, nm)
            obs[nm] = json.load(open(p)) if os.path.exists(p) else None
        obs['args'] = args
        return obs
    finally:
        if not keep_dir:
            rm_scratch(d)
        else:
            obs['dir'] = d


# ---------------- reference batch semantics (C08) ----------------------------------------------------

def reference_batches(file_text, minibatch_size, subsampling):
    """Independent reference: returns (batches, invalid_count)"""
    lines = file_text.split('\n')
    if lines and lines[-1] == '':
        lines = lines[:-1]
    header = next(csv.reader([lines[0]]))
    accepted, invalid = [], 0
    for pos, line in enumerate(lines[1:], start=1):
        if pos % subsampling != 0:
            continue
        fields = next(csv.reader([line]), [])
        if len(fields) == len(header):
            accepted.append(fields)
        else:
            invalid += 1
    batches = [accepted[i:i + minibatch_size] for i in range(0, len(accepted), minibatch_size)]
    if batches and len(batches[-1]) < minibatch_size:
        if len(batches[-1]) <= 1024:
            batches.pop()
    return header, batches, invalid


def score_batch(rows, header, over):
    """the real batch scorer on one reference batch in a reset state"""
    from outrank import core_ranking as cr
    harness.reset_state()
    kw = dict(data_source='csv-raw', disable_tqdm='True')
    kw.update({k: v for k, v in over.items() if k not in ('data_path', 'output_folder')})
    args = harness.make_args(**kw)
    with warnings.catch_warnings():
        warnings.simplefilter('ignore')
        res = cr.compute_batch_ranking([list(r) for r in rows], set(), args, harness.InlinePool(), list(header), harness.RecLogger(), harness.NullBar())
    return [(a, b, float(s)) for a, b, s in res[0].triplet_scores]


def medians(triplet_lists):
    per = {}
    for trip in triplet_lists:
        for a, b, s in trip:
            per.setdefault((a, b), []).append(s)
    return {k: statistics.median(v) for k, v in per.items()}


def close(a, b, tol=1e-6):
    if isinstance(a, float) and isinstance(b, float) and math.isnan(a) and math.isnan(b):
        return True
    return abs(a - b) <= tol * max(1.0, abs(b))


def table_to_map(rows, acol, bcol, scol):
    out = {}
    for r in rows:
        out.setdefault((r[acol], r[bcol]), []).append(float(r[scol]))
    return out


def judge_streaming(file_text, over, via_cli=False, relative=False):
    """C08 oracle for one file/config.  Returns (fails [(sig,msg)], info dict)."""
    over = dict(over)
    over.setdefault('include_cardinality_in_feature_names', 'False')
    over.setdefault('heuristic', 'MI-numba-randomized')
    ok, obs = safe(run_task, file_text, over, via_cli=via_cli, relative=relative)
    if not ok:
        return [({'kind': 'exception'}, f'ranking task raised {obs}')], {}
    fails = []
    header, ref_b, ref_inv = reference_batches(file_text, over['minibatch_size'], over['subsampling'])
    info = {'n_batches': len(ref_b), 'invalid': ref_inv}
    if obs['batches'] != ref_b:
        sizes = [len(b) for b in obs['batches']]
        fails.append(({'kind': 'batches'}, f'batches consumed differ from the reference: got sizes {sizes} first rows {[b[0] for b in obs["batches"]][:3]}, '
                                          f'reference sizes {[len(b) for b in ref_b]} first rows {[b[0] for b in ref_b][:3]}'))
        return fails, info
    if obs['invalid'] != ref_inv:
        fails.append(({'kind': 'invalid_count'}, f'logged {obs["invalid"]} invalid lines, reference {ref_inv}'))
    # per-batch triplets == real scorer on the reference batch (differential)
    ref_trip = []
    for i, b in enumerate(ref_b):
        rt = score_batch(b, header, over)
        ref_trip.append(rt)
        if sorted(rt) != sorted(obs['batch_triplets'][i]) and not all(close(x[2], y[2]) and x[:2] == y[:2] for x, y in zip(sorted(rt), sorted(obs['batch_triplets'][i]))):
            fails.append(({'kind': 'batch_scores'}, f'batch {i}: triplets differ from scoring the same rows in isolation'))
            break
    # checkpoints: after every batch, the median aggregation of the batches so far
    if over['heuristic'] != 'Constant':
        cps = obs['checkpoints']
        if [c[0] for c in cps] != list(range(1, len(ref_b) + 1)):
            fails.append(({'kind': 'checkpoint_missing'}, f'checkpoints written after batches {[c[0] for c in cps]}, expected after each of {len(ref_b)}'))
        else:
            for nb, rows in cps:
                exp = medians(ref_trip[:nb])
                if rows is None:
                    fails.append(({'kind': 'checkpoint_missing'}, f'no checkpoint file after batch {nb}'))
                    break
                hdr = rows[0]
                try:
                    ia, ib, isc = hdr.index('FeatureA'), hdr.index('FeatureB'), hdr.index('Score')
                except ValueError:
                    fails.append(({'kind': 'checkpoint_format'}, f'checkpoint header {hdr}'))
                    break
                got = table_to_map(rows[1:], ia, ib, isc)
                if set(got) != set(exp) or any(len(v) != 1 for v in got.values()) or any(not close(got[k][0], exp[k]) for k in exp):
                    fails.append(({'kind': 'checkpoint_content'}, f'checkpoint after batch {nb} is not the median aggregation of the first {nb} batches: '
                                                                 f'{ {k: v for k, v in list(got.items())[:3]} } vs { {k: exp[k] for k in list(exp)[:3]} }'))
                    break
    # final result
    exp = medians(ref_trip)
    if not ref_b:
        if obs['pairwise'] is not None:
            fails.append(({'kind': 'final_unexpected'}, 'pairwise_ranks.tsv written although no batch qualifies'))
        return fails, info
    pw = obs['pairwise']
    if pw is None:
        fails.append(({'kind': 'final_missing'}, f'pairwise_ranks.tsv missing (exit={obs["exit"]})'))
        return fails, info
    got = table_to_map(pw[1:], 0, 1, 2)
    if set(got) != set(exp) or any(len(v) != 1 for v in got.values()):
        fails.append(({'kind': 'final_pairs'}, f'pairs in pairwise_ranks.tsv differ from the reference: {sorted(set(got) ^ set(exp))[:4]}'))
    elif any(not close(got[k][0], exp[k]) for k in exp):
        bad = [k for k in exp if not close(got[k][0], exp[k])][:3]
        fails.append(({'kind': 'final_median'}, f'final scores are not the per-pair medians: {[(k, got[k][0], exp[k]) for k in bad]}'))
    sc = [float(r[2]) for r in pw[1:]]
    if any(sc[i] > sc[i + 1] for i in range(len(sc) - 1) if not (math.isnan(sc[i]) or math.isnan(sc[i + 1]))):
        fails.append(({'kind': 'final_order'}, f'pairwise_ranks.tsv not in ascending score order: {sc}'))
    ret = obs.get('returned')
    if ret is not None and ret[1] is not None:
        g = {(r.FeatureA, r.FeatureB): float(r.Score) for r in ret[1].itertuples()}
        if set(g) != set(exp) or any(not close(g[k], exp[k]) for k in exp):
            fails.append(({'kind': 'returned_frame'}, 'grouped frame returned by estimate_importances_minibatches is not the median aggregation'))
    if obs.get('checkpoint_left_behind'):
        info['checkpoint_left_behind'] = True
    return fails, info


# ---------------- data-quality end-to-end (C13) -------------------------------------------------------

def quality_file(case):
    n, variant = case['n_rows'], case['variant']
    vals_a = [['u', 'v', 'w', ''], ['u', 'u', 'v', '{}'], ['x', 'y', 'z', 'w'], ['', '', 'u', 'v']][variant % 4]
    lines = ['fa,fb,label']
    rows = []
    for i in range(n):
        a = vals_a[(i * (variant + 1)) % 4]
        b = ['p', 'q', ''][(i // 2) % 3]
        rows.append([a, b, str(i % 2)])
        lines.append(','.join(rows[-1]))
    return '\n'.join(lines) + '\n', rows


def judge_quality_e2e(case):
    text, rows = quality_file(case)
    mb = case['minibatch_size']
    over = dict(minibatch_size=mb, subsampling=1, task=case['task'], rare_value_count_upper_bound=case['threshold'],
                include_cardinality_in_feature_names=case.get('annotate', 'True'), heuristic='MI-numba-randomized')
    ok, obs = safe(run_task, text, over, via_cli=bool(case.get('via_cli')), tolerate_exception=True)
    if not ok:
        return [({'kind': 'exception', 'task': case['task']}, f'task raised {obs}')]
    if obs.get('exception') and not (case['task'] == 'identify_rare_values' and obs.get('rare_values') is not None and obs.get('returned') is not None):
        # the statement is about the reports; an exception raised AFTER the rare-value report was written (in the sparsity summary) is not judged here
        return [({'kind': 'exception', 'task': case['task']}, f'task raised {obs["exception"]} before its report was written')]
    fails = []
    header = ['fa', 'fb', 'label']
    used = rows[:(len(rows) // mb) * mb]
    missing = {'', '{}'}
    card = {h: len({r[i] for r in used if r[i]}) for i, h in enumerate(header)}
    batches = [used[i:i + mb] for i in range(0, len(used), mb)]
    cov = {h: statistics.fmean([100 * (1 - sum(1 for r in b if r[i] in missing) / len(b)) for b in batches]) for i, h in enumerate(header)}
    if case['task'] == 'ranking':
        pw = obs['pairwise']
        if pw is None:
            return [({'kind': 'final_missing'}, 'pairwise_ranks.tsv missing')]
        for r in pw[1:]:
            for name in r[:2]:
                if case.get('annotate', 'True') != 'True':
                    if name not in card:
                        fails.append(({'kind': 'annotation_format'}, f'unexpected feature name {name!r} (annotation switched off)'))
                    continue
                base, _, ann = name.partition('-(')
                if base not in card or not ann.endswith(')'):
                    fails.append(({'kind': 'annotation_format'}, f'unexpected feature name {name!r}'))
                    continue
                c, v = ann[:-1].split('; ')
                if int(c) != card[base]:
                    fails.append(({'kind': 'annotation_cardinality'}, f'{name}: cardinality {c}, exact distinct non-empty values {card[base]}'))
                if abs(float(v) - cov[base]) >= 1:
                    fails.append(({'kind': 'annotation_coverage'}, f'{name}: coverage {v}, mean of per-batch percentages {cov[base]:.2f}'))
        vr = obs['value_repetitions.json']
        if vr is None:
            fails.append(({'kind': 'repetitions_missing'}, 'value_repetitions.json missing'))
        else:
            for i, h in enumerate(header):
                cnt = {}
                for r in used:
                    cnt[r[i]] = cnt.get(r[i], 0) + 1
                exp = {str(t): sum(1 for v in cnt.values() if v > t) for t in [0, 1, 10, 100, 1000, 10000, 100000]}
                if vr.get(h) != exp:
                    fails.append(({'kind': 'repetitions'}, f'value_repetitions[{h}]={vr.get(h)} expected {exp}'))
    else:
        thr = case['threshold']
        cnt = {}
        for r in used:
            for i, h in enumerate(header):
                cnt[(h, r[i])] = cnt.get((h, r[i]), 0) + 1
        exp = {k: v for k, v in cnt.items() if v <= thr}
        ret = obs.get('returned')
        if ret is None:
            fails.append(({'kind': 'exception', 'task': case['task']}, 'estimate_importances_minibatches did not return'))
        else:
            got = dict(ret[6])
            if got != exp:
                fails.append(({'kind': 'rare_report'}, f'rare-value storage {got} != exact {exp} (threshold {thr}, batches of {mb})'))
        rv = obs['rare_values']
        if exp and rv is not None:
            g2 = {(r[0], r[1]): int(r[2]) for r in rv[1:]}
            if g2 != {k: v for k, v in exp.items()}:
                fails.append(({'kind': 'rare_file'}, f'rare_values.tsv {g2} != exact {exp}'))
        elif rv is None:
            fails.append(({'kind': 'rare_file_missing'}, f'rare_values.tsv missing (exit={obs["exit"]}, exact report has {len(exp)} entries)'))
        elif not exp and len(rv) > 1:
            fails.append(({'kind': 'rare_file'}, f'rare_values.tsv lists {rv[1:3]} although no value is rare'))
    return fails
