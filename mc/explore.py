"""E2 (explicit-state BFS over a real object) and E3 (stateless choice-point exploration with deviation bounding)."""
from __future__ import annotations

from collections import deque

from mc.common import HarnessError


def bfs(make_world, max_depth, stats, sig_of=None, max_states=None, sample_every=0):
    """Explicit-state search.  make_world() returns a fresh World bound to a fresh real object with
         .enabled()  -> list of json-able events
         .apply(ev)  -> list of failure strings (real step + reference-model step + invariants)
         .canon()    -> hashable canonical form of (implementation state, reference state)
    A state is represented by the event history reaching it and is rebuilt by replay (live objects rarely copy).
    Returns (closed, n_states, max_depth_reached).  closed == True iff the frontier emptied below max_depth."""
    w0 = make_world()
    snap = hasattr(w0, 'snapshot')   # worlds whose full state can be captured/restored avoid the replay
    seen = {w0.canon()}
    frontier = deque([((), w0.snapshot() if snap else None)])
    closed = True
    depth_reached = 0
    stats.count('states')
    while frontier:
        hist, sn = frontier.popleft()
        w = make_world()
        if snap:
            w.restore(sn)
        else:
            for e in hist:
                w.apply(e)
        evs = w.enabled()
        if len(hist) >= max_depth:
            if evs:
                closed = False
            continue
        for ev in evs:
            w = make_world()
            if snap:
                w.restore(sn)
            else:
                for e in hist:
                    w.apply(e)
            fails = w.apply(ev)
            stats.count('transitions')
            stats.count('traces_validated')
            stats.count('evaluations')
            if fails:
                case = {'history': list(hist) + [ev]}
                stats.violation(case, '; '.join(fails), sig_of(hist, ev, fails) if sig_of else None)
                continue
            k = w.canon()
            if k not in seen:
                seen.add(k)
                stats.count('states')
                depth_reached = max(depth_reached, len(hist) + 1)
                frontier.append((hist + (ev,), w.snapshot() if snap else None))
                if sample_every and len(seen) % sample_every == 0:
                    stats.sample({'history': list(hist) + [ev]}, cap=4)
                if max_states and len(seen) >= max_states:
                    return False, len(seen), depth_reached
    return closed, len(seen), depth_reached


class Chooser:
    """Replays a recorded prefix of choices, then answers 0 (the default environment answer)."""

    def __init__(self, prefix=()):
        self.prefix = list(prefix)
        self.trace = []  # (choice, n_options, label)

    def pick(self, n, label=''):
        if n <= 0:
            raise HarnessError(f'choice point {label} without options')
        i = len(self.trace)
        if i < len(self.prefix):
            c = self.prefix[i]
            if c >= n:
                raise HarnessError(f'divergence while replaying prefix at point {i} ({label}): choice {c} of {n}')
        else:
            c = 0
        self.trace.append((c, n, label))
        return c

    def choices(self):
        return [c for c, _, _ in self.trace]


def explore_choices(run_fn, max_dev=None, max_runs=None):
    """Yield (choices, result) for every execution of run_fn(chooser) whose choice sequence has at most max_dev
    non-default answers (None = all).  Depth-first over prefixes; every execution runs to completion."""
    stack = [()]
    runs = 0
    while stack:
        prefix = stack.pop()
        ch = Chooser(prefix)
        res = run_fn(ch)
        if len(ch.trace) < len(prefix):
            raise HarnessError('execution ended before its recorded prefix was consumed (nondeterministic harness)')
        runs += 1
        yield ch.choices(), res
        if max_runs and runs >= max_runs:
            return
        cs = ch.choices()
        dev = sum(1 for c in cs[:len(prefix)] if c)
        for i in range(len(prefix), len(ch.trace)):
            # cs[len(prefix):i] are all 0 by construction
            if max_dev is not None and dev + 1 > max_dev:
                break
            for alt in range(ch.trace[i][1] - 1, 0, -1):
                stack.append(tuple(cs[:i]) + (alt,))
