"""Seams into the real outrank pipeline: argument namespaces, in-process pool, state reset, scratch cwd."""
from __future__ import annotations

import contextlib
import logging
import os
import random
from types import SimpleNamespace

import numpy as np

DEFAULT_ARGS = dict(
    task='ranking', minibatch_size=2 ** 14, output_folder='ranking_outputs', data_source='csv-raw', data_path=None,
    subsampling=1, combination_number_upper_bound=2 ** 15, missing_value_symbols=',{}', heuristic='MI-numba-randomized',
    include_noise_baseline_features='False', include_cardinality_in_feature_names='True', image_format='pdf',
    num_threads=1, label_column='label', max_unique_hist_constraint=30_000, transformers='none',
    rare_value_count_upper_bound=1, feature_set_focus=None, interaction_order=1, reference_model_JSON='',
    target_ranking_only='True', explode_multivalue_features='False', subfeature_mapping='False',
    num_synthetic_features=100, tldr='False', num_synthetic_rows=1000000, generator_type='naive',
    output_synthetic_df_name='test_data_synthetic', disable_tqdm='True', mi_stratified_sampling_ratio=1.0,
)


def make_args(**over):
    d = dict(DEFAULT_ARGS)
    unknown = set(over) - set(d)
    if unknown:
        raise KeyError(f'unknown args {unknown}')
    d.update(over)
    return SimpleNamespace(**d)


class _Ready:
    def __init__(self, val):
        self._v = val

    def ready(self):
        return True

    def get(self, timeout=None):
        return self._v


class InlinePool:
    """pathos-surface pool whose asynchronous result is ready at once (the sequential schedule)."""

    def __init__(self, *a, **k):
        self.calls = 0
        self.ncpus = self.nodes = 1      # the pathos pool exposes its size under both names

    def __enter__(self):
        return self

    def __exit__(self, *a):
        return False

    def amap(self, f, *iterables):
        self.calls += 1
        return _Ready([f(*xs) for xs in zip(*iterables)])

    def map(self, f, *iterables):
        return [f(*xs) for xs in zip(*iterables)]

    imap = map

    def uimap(self, f, *iterables):
        return iter(self.map(f, *iterables))

    def apipe(self, f, *a):
        return _Ready(f(*a))

    def pipe(self, f, *a):
        return f(*a)

    def close(self):
        pass

    def join(self):
        pass

    def clear(self):
        pass


class NullBar:
    def set_description(self, *a, **k):
        pass

    def update(self, *a, **k):
        pass

    def close(self):
        pass


class RecLogger:
    """Stands in for the `logging` module / a logger passed as `logger=`; records messages."""

    def __init__(self):
        self.msgs = []

    def info(self, m, *a):
        self.msgs.append(str(m))

    warning = warn = error = debug = info


def reset_state():
    """Put every piece of process-global state of outrank back to its import-time value."""
    from outrank import core_ranking as cr
    cr.GLOBAL_CARDINALITY_STORAGE.clear()
    cr.GLOBAL_COUNTS_STORAGE.clear()
    cr.GLOBAL_RARE_VALUE_STORAGE.clear()
    cr.GLOBAL_PRIOR_COMB_COUNTS.clear()
    cr.IGNORED_VALUES.clear()
    random.seed(a=123, version=2)
    np.random.seed(123)


@contextlib.contextmanager
def in_dir(path):
    old = os.getcwd()
    os.chdir(path)
    try:
        yield
    finally:
        os.chdir(old)


def quiet_logging():
    logging.disable(logging.CRITICAL)
