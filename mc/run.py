"""Entry point:  check <ID> [--tier quick|thorough] [--replay FILE]"""
from __future__ import annotations

import argparse
import importlib
import json
import os
import sys
import time

from mc import common
from mc.common import HarnessError, Stats


class Ctx:
    def __init__(self, pid, tier, seed):
        self.pid = pid
        self.tier = tier
        self.seed = seed
        self.stats = Stats()
        self.extra = {}          # free-form coverage keys set by the check
        self.assumptions = []
        self.exhaustive = True   # a check sets False when a cap / bound cut the enumeration short

    @property
    def thorough(self):
        return self.tier == 'thorough'


def build_coverage(mod, ctx):
    st = ctx.stats
    cov = {}
    cov['evaluations'] = int(st.n.get('evaluations', 0))
    cov['distinct_nontrivial'] = int(st.n.get('nontrivial', 0))
    cov['rule'] = mod.RULE
    cov['samples'] = st.samples[:6]
    cov['exhaustive'] = bool(ctx.exhaustive)
    if mod.LEVEL == 'model_checking':
        cov['states'] = int(st.n.get('states', 0))
        cov['transitions'] = int(st.n.get('transitions', 0))
        cov['traces_validated_against_impl'] = int(st.n.get('traces_validated', 0))
    cov['counters'] = {k: int(v) for k, v in sorted(st.n.items())}
    cov['distinct_observed'] = {k: len(v) for k, v in sorted(st.sets.items())}
    if st.notes:
        cov['notes'] = st.notes[:20]
    cov.update(ctx.extra)
    return cov


def main(argv=None):
    ap = argparse.ArgumentParser()
    ap.add_argument('pid')
    ap.add_argument('--tier', default=os.environ.get('VERIF_TIER', 'quick'), choices=['quick', 'thorough'])
    ap.add_argument('--replay', default=None)
    a = ap.parse_args(argv)
    pid = a.pid.upper()
    seed = int(os.environ.get('VERIF_SEED', '0') or 0)

    os.makedirs(common.SCRATCH_ROOT, exist_ok=True)
    import logging
    logging.disable(logging.CRITICAL)   # outrank logs through the root logger; observations are taken from return values
    # import the code under test once, before any worker is forked
    import outrank.core_ranking  # noqa
    import outrank.task_ranking  # noqa
    import outrank.task_summary  # noqa
    import outrank.task_generators  # noqa
    import outrank.algorithms.synthetic_data_generators.cc_generator  # noqa
    import outrank.algorithms.sketches.counting_cms  # noqa
    from mc import seqdiff
    seqdiff.remember_pristine()
    try:
        mod = importlib.import_module(f'mc.checks.{pid.lower()}')
    except ModuleNotFoundError as e:
        print(f'no check for {pid}: {e}', file=sys.stderr)
        return 2

    if a.replay:
        with open(a.replay) as f:
            rec = json.load(f)
        case = rec['case']
        out = []
        for i in range(2):
            fails = mod.eval_case(case)
            print(f'replay run {i + 1}: {"FAIL" if fails else "ok"}')
            for x in fails:
                print('   ', x)
            out.append(json.dumps(common.jsonable(fails), sort_keys=True))
        f1, f2 = json.loads(out[0]), json.loads(out[1])
        if out[0] != out[1]:
            # a failure that involves process-global state can look different the second time in the same process: that is an
            # observation about the code under test, not a harness error, as long as the violation itself reproduces
            print('note: the two replay runs differ (the failing behaviour depends on process history)')
        if f1 or f2:
            print(f'VIOLATION property={pid} replay={a.replay}')
            return 1
        return 0

    ctx = Ctx(pid, a.tier, seed)
    t0 = time.time()
    status = 0
    try:
        mod.run(ctx)
    except HarnessError as e:
        print(f'HARNESS-ERROR property={pid}: {e}', file=sys.stderr)
        status = 2
    except Exception as e:  # noqa
        import traceback
        tb = traceback.format_exc()
        if common.blames_code_under_test(tb):
            ctx.stats.merge(common.uncaught_as_violation(e, tb, 'main process'))
        else:
            print(f'HARNESS-ERROR property={pid}: {type(e).__name__}: {e}\n{tb}', file=sys.stderr)
            status = 2
    wall = time.time() - t0

    findings = common.load_known_findings()
    unknown = 0
    known_printed = set()
    for v in ctx.stats.violations:
        kf = common.match_known(pid, v.get('sig', {}), findings)
        if kf is not None:
            key = kf.get('id') or json.dumps(kf.get('match'), sort_keys=True)
            if key not in known_printed:
                known_printed.add(key)
                print(f'KNOWN-FINDING: property={pid} {kf.get("what", "")}')
            continue
        unknown += 1
        if unknown <= 5:
            path = common.write_replay(pid, v)
            print(f'VIOLATION property={pid} replay={path}')
            print(f'   {v["what"][:400]}')
    dropped = int(ctx.stats.n.get('violation_classes_dropped', 0))
    if dropped:
        unknown += dropped
    if unknown > 5:
        print(f'   ... {unknown - 5} further distinct violation classes not printed')

    cov = build_coverage(mod, ctx)
    cov['known_findings_matched'] = sorted(known_printed)
    common.write_evidence(pid, a.tier, seed, mod.LEVEL, cov, list(getattr(mod, 'ASSUMPTIONS', [])) + ctx.assumptions,
                          wall, int(ctx.stats.n.get('violations', 0)))
    brief = {k: cov[k] for k in ('evaluations', 'distinct_nontrivial', 'states', 'transitions', 'exhaustive') if k in cov}
    print(f'{pid} tier={a.tier} seed={seed} wall={wall:.1f}s {brief} violations={ctx.stats.n.get("violations", 0)}')
    if unknown:
        return 1          # a violation was found and reported; a vacuity complaint raised on top of it does not mask it
    return status


if __name__ == '__main__':
    sys.exit(main())
