"""E4: run harness bodies in fresh interpreters over a complete declared grid of process-level settings."""
from __future__ import annotations

import os
import subprocess
import sys
from concurrent.futures import ThreadPoolExecutor

from mc.common import VERIF, NPROC

PY = '/venv/bin/python'


def run_fresh(argv, env_over=None, cwd=None, timeout=600):
    env = dict(os.environ)
    env.update({k: str(v) for k, v in (env_over or {}).items()})
    env.setdefault('NUMBA_CACHE_DIR', os.path.join(VERIF, '.scratch', 'numba_cache'))
    env['PYTHONPATH'] = VERIF + os.pathsep + env.get('PYTHONPATH', '')
    try:
        p = subprocess.run([PY] + list(argv), env=env, cwd=cwd, capture_output=True, text=True, timeout=timeout)
        return p.returncode, p.stdout, p.stderr
    except subprocess.TimeoutExpired as e:
        return -999, e.stdout or '', 'TIMEOUT'


def run_many(jobs, fn, workers=None):
    """jobs: list; fn(job) runs one fresh process (blocking).  Thread pool, since the work happens in child processes."""
    with ThreadPoolExecutor(max_workers=workers or NPROC) as ex:
        return list(ex.map(fn, jobs))
