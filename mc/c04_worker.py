"""C04 worker (fresh interpreter): compiled estimator after heap grooming with one fill pattern.
usage: c04_worker.py <fill|none> <nmax> <outfile> <progressfile>
Writes the case being executed to <progressfile> BEFORE every call, so that a signal leaves the failing case on disk."""
import json
import math
import resource
import sys

# a wild read may turn into a giant allocation: fail fast instead of swapping
resource.setrlimit(resource.RLIMIT_AS, (8 << 30, 8 << 30))

import numpy as np
from numba import njit

sys.path.insert(0, __file__.rsplit('/mc/', 1)[0])
from mc import enum, refs  # noqa: E402
from outrank.algorithms.feature_ranking import ranking_mi_numba as m  # noqa: E402

fill_arg, nmax, outfile, progress = sys.argv[1], int(sys.argv[2]), sys.argv[3], sys.argv[4]
fill = None if fill_arg == 'none' else float(fill_arg)
RATIOS = [k / 8 for k in range(1, 8)]


@njit
def groom(k, val, rounds):
    s = 0.0
    for _ in range(rounds):
        a = np.empty(k)
        for i in range(k):
            a[i] = val
        s += a[0]
    return s


@njit
def peek(k):
    a = np.empty(k)
    return a.copy()


f = m.mutual_info_estimator_numba
ce = m.compute_entropies
nu = m.numba_unique

# self-test of the grooming: how often does the next np.empty(k) see the pattern?
hits = tot = 0
if fill is not None:
    for k in range(1, 9):
        for _ in range(50):
            groom(k, fill, 3)
            got = peek(k)
            tot += k
            hits += int(np.sum(got == fill)) if not math.isnan(fill) else int(np.sum(np.isnan(got)))

pf = open(progress, 'w')


def note(case):
    pf.seek(0)
    pf.write(json.dumps(case) + ' ' * 40)
    pf.flush()


scores = []
problems = []
n_cases = 0
n_sample_only = 0
for n in range(1, nmax + 1):
    A = [(t, np.array(t, dtype=np.int32)) for t in enum.rgs_list(n)]
    for ty, ay in A:
        for tx, ax in A:
            vals, cnts = nu(ax)
            for r in RATIOS:
                quota = int(math.floor(r * n))
                idx = refs.sample_indices(tx, quota) if quota >= 0 else None
                for c in (False, True):
                    case = {'Y': ty, 'X': tx, 'r': r, 'c': c, 'fill': fill_arg}
                    note(case)
                    res = []
                    for rep in range(3):
                        if fill is not None and quota > 0:
                            groom(quota, fill, 3)
                        res.append(float(f(ay, ax, np.float32(r), c)))
                    n_cases += 1
                    scores.append(res[0])
                    if not all(math.isfinite(x) for x in res):
                        problems.append({'case': case, 'what': f'non-finite score {res}', 'kind': 'nonfinite'})
                    if res[0] != res[1] or res[1] != res[2]:
                        problems.append({'case': case, 'what': f'score differs between repetitions: {res}', 'kind': 'nondeterministic'})
                    if not c or ty == tx:
                        # uncorrected: must equal r * (entropies on the reference sample, original weights)
                        if idx is None:
                            ys, xs = ay, ax
                        else:
                            ii = np.array(idx, dtype=np.int64)
                            ys, xs = ay[ii], ax[ii]
                        exp = float(np.float32(r) * ce(xs, ys, n, vals, cnts, False))
                        if not (abs(res[0] - exp) <= 1e-6 + 1e-6 * abs(exp)):
                            problems.append({'case': case, 'what': f'score {res[0]!r} != r * entropies on the reference sample {exp!r} (sample rows {idx})', 'kind': 'sample_value'})
                    # sample-only: altering Y outside the sampled rows must not change the score
                    if idx is not None:
                        outside = [i for i in range(n) if i not in idx]
                        for i in outside:
                            for newv in ({0: 1}.get(ty[i], 0), max(ty) + 1):
                                y2 = ay.copy()
                                y2[i] = newv
                                if (tuple(y2.tolist()) == tx) != (ty == tx):
                                    continue
                                note(dict(case, altered=[i, int(newv)]))
                                if fill is not None and quota > 0:
                                    groom(quota, fill, 3)
                                s2 = float(f(y2, ax, np.float32(r), c))
                                n_sample_only += 1
                                if s2 != res[0]:
                                    problems.append({'case': dict(case, altered=[i, int(newv)]), 'what': f'changing Y[{i}] (outside the sampled rows {idx}) changed the score {res[0]!r} -> {s2!r}', 'kind': 'not_sample_only'})
                    if len(problems) > 200:
                        break
# larger, structured vectors (n >= 16): sorting-based groupings behave differently from the hand-sized cases
from mc.checks.c04 import large_vectors  # noqa: E402
for tx_ in large_vectors():
    lab = {v: i for i, v in enumerate(sorted(set(tx_)))}
    tx = tuple(lab[v] for v in tx_)
    n = len(tx)
    ax = np.array(tx, dtype=np.int32)
    vals, cnts = nu(ax)
    for ty in (tuple(range(n)), tuple((i * 5 + i // 4) % 4 for i in range(n))):
        ay = np.array(ty, dtype=np.int32)
        for r in RATIOS:
            quota = int(math.floor(r * n))
            idx = refs.sample_indices(tx, quota)
            case = {'Y': ty, 'X': tx, 'r': r, 'c': False, 'fill': fill_arg}
            note(case)
            if fill is not None and quota > 0:
                groom(quota, fill, 3)
            res = [float(f(ay, ax, np.float32(r), False)) for _ in range(2)]
            n_cases += 1
            scores.append(res[0])
            if res[0] != res[1] or not math.isfinite(res[0]):
                problems.append({'case': case, 'what': f'scores {res}', 'kind': 'nondeterministic'})
            ii = np.arange(n) if idx is None else np.array(idx, dtype=np.int64)
            exp = float(np.float32(r) * ce(ax[ii], ay[ii], n, vals, cnts, False))
            if not (abs(res[0] - exp) <= 1e-6 + 1e-6 * abs(exp)):
                problems.append({'case': case, 'what': f'n={n}: score {res[0]!r} != r * entropies on the reference sample {exp!r}', 'kind': 'sample_value'})
note({'done': True})
np.save(outfile + '.npy', np.array(scores, dtype=np.float64))
json.dump({'cases': n_cases, 'sample_only_checks': n_sample_only, 'problems': problems[:200], 'groom_hits': hits, 'groom_total': tot}, open(outfile + '.json', 'w'))
