"""Shared access to the real numba estimator + cached int32 arrays for restricted-growth strings."""
from __future__ import annotations

import numpy as np

from mc import enum

_F1 = np.float32(1.0)
_ARR = {}


def estimator():
    from outrank.algorithms.feature_ranking import ranking_mi_numba as m
    return m.mutual_info_estimator_numba


def arrs(n):
    """list of (tuple, int32 array) for every RGS of length n"""
    if n not in _ARR:
        _ARR[n] = [(t, np.array(t, dtype=np.int32)) for t in enum.rgs_list(n)]
    return _ARR[n]


_ARR2 = {}


def arrs2(n):
    """the same vectors in SEPARATE buffers (equal content must be recognised as equal, identity of the buffer is irrelevant)"""
    if n not in _ARR2:
        _ARR2[n] = [(t, a.copy()) for t, a in arrs(n)]
    return _ARR2[n]


def score(Y, X, r=1.0, c=False):
    f = estimator()
    return float(f(np.asarray(Y, dtype=np.int32), np.asarray(X, dtype=np.int32), np.float32(r), bool(c)))


ATOL = 1e-5
RTOL = 1e-5


def near(a, b, atol=ATOL, rtol=RTOL):
    return abs(a - b) <= atol + rtol * abs(b)
