"""Fresh-interpreter runner for the real CLI (E4): python procs_runner.py <sleep_scale> <outrank CLI args...>
Only the polling sleep of the scoring loop is scaled (time is a seam, not behaviour); everything else is `python -m outrank`."""
import sys
import time
import types

scale = float(sys.argv[1])
sys.argv = ['outrank'] + sys.argv[2:]

import outrank.core_ranking as cr  # noqa: E402

_real_sleep = time.sleep
proxy = types.SimpleNamespace(**{k: getattr(time, k) for k in dir(time) if not k.startswith('_')})
proxy.sleep = lambda s: _real_sleep(s * scale)
cr.time = proxy

from outrank.__main__ import main  # noqa: E402

main()
