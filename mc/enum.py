"""E1: canonical bounded-exhaustive enumerators (deterministic, simplest first)."""
from __future__ import annotations

import itertools


def rgs(n):
    """All restricted-growth strings of length n (= all set partitions of n ordered rows), lexicographic.
    rgs(0) yields the empty tuple."""
    if n == 0:
        yield ()
        return
    a = [0] * n
    m = [0] * n  # m[i] = max(a[0..i-1]) + 1 = number of codes allowed at i minus 1

    def rec(i, mx):
        if i == n:
            yield tuple(a)
            return
        for v in range(mx + 1):
            a[i] = v
            yield from rec(i + 1, mx + 1 if v == mx else mx)

    yield from rec(0, 0)


_RGS_CACHE = {}


def rgs_list(n):
    if n not in _RGS_CACHE:
        _RGS_CACHE[n] = list(rgs(n))
    return _RGS_CACHE[n]


BELL = [1, 1, 2, 5, 15, 52, 203, 877, 4140, 21147, 115975]


def compositions(n):
    """All ways to cut n items into consecutive non-empty parts (2^(n-1) of them); n=0 -> [()]"""
    if n == 0:
        yield ()
        return
    for mask in range(1 << (n - 1)):
        parts, run = [], 1
        for i in range(n - 1):
            if mask >> i & 1:
                parts.append(run)
                run = 1
            else:
                run += 1
        parts.append(run)
        yield tuple(parts)


def tables(alphabet, rows, cols):
    """All rows x cols tables over the alphabet, row-major, as tuples of row tuples."""
    for flat in itertools.product(alphabet, repeat=rows * cols):
        yield tuple(tuple(flat[r * cols:(r + 1) * cols]) for r in range(rows))


def sequences(alphabet, max_len, min_len=0):
    for k in range(min_len, max_len + 1):
        yield from itertools.product(alphabet, repeat=k)


def multisets(alphabet, k):
    return itertools.combinations_with_replacement(alphabet, k)


def injective_maps(codes, targets):
    """All injective maps codes -> targets as dicts."""
    codes = list(codes)
    for perm in itertools.permutations(targets, len(codes)):
        yield dict(zip(codes, perm))
