"""Virtual worker pool: the pathos ProcessingPool contract with an explorer-chosen schedule (C09).

Model assumptions (the library's contract, not outrank's): workers are isolated processes created when the pool is first used
(so each starts from a copy of the parent's process-local state at that moment and keeps its own state across batches); the mapped
function travels by value (dill) per chunk, so mutations of captured objects never travel back; ordered maps return results by
input position; the task list is cut into chunks of ceil(len / (4*W)) items and any idle worker may take the next chunk.
Because workers share nothing, a chunk is an atomic step and a schedule is fully described by which worker runs which chunk
(plus, for the unordered API, the completion order).
"""
from __future__ import annotations

import copy
import random

import dill
import numpy as np

from mc.common import HarnessError


def _tolerant_copy(d):
    if isinstance(d, set):
        return set(d)
    from collections import defaultdict
    out = defaultdict(d.default_factory) if isinstance(d, defaultdict) else type(d)()
    for k, v in d.items():
        try:
            out[k] = copy.deepcopy(v)
        except Exception:
            c = copy.copy(v)
            if hasattr(c, '__dict__'):
                c.__dict__ = {a: copy.deepcopy(b) for a, b in v.__dict__.items() if a != 'hasher'}
            out[k] = c
    return out


def _module_containers():
    """every module-level mutable container of every loaded outrank module: the process-local state a forked worker owns a copy of"""
    import sys
    from collections import deque
    out = []
    for name, mod in sorted(sys.modules.items()):
        if not (name == 'outrank' or name.startswith('outrank.')) or mod is None:
            continue
        for attr, val in sorted(vars(mod).items()):
            if attr.startswith('__'):
                continue
            if isinstance(val, (dict, set, list, deque)):
                out.append((name, attr, val))
    return out


def capture_state():
    cont = {}
    for name, attr, val in _module_containers():
        if isinstance(val, dict):
            cont[(name, attr)] = _tolerant_copy(val)
        elif isinstance(val, set):
            cont[(name, attr)] = set(val)
        else:
            cont[(name, attr)] = copy.copy(val)
    return {'random': random.getstate(), 'np': np.random.get_state(), 'containers': cont}


def install_state(s):
    random.setstate(s['random'])
    np.random.set_state(s['np'])
    live = {(name, attr): val for name, attr, val in _module_containers()}
    for key, snap in s['containers'].items():
        tgt = live.get(key)
        if tgt is None:
            continue
        if isinstance(tgt, dict):
            tgt.clear()
            tgt.update(_tolerant_copy(snap))
        elif isinstance(tgt, set):
            tgt.clear()
            tgt.update(snap)
        else:
            tgt.clear()
            tgt.extend(snap)
    # containers created after the snapshot (e.g. a cache filled for the first time) start empty in a worker that never saw them
    for key, tgt in live.items():
        if key not in s['containers']:
            tgt.clear()


class _Ready:
    def __init__(self, val=None, exc=None, pending=0):
        self._v, self._e = val, exc
        self._pending = pending     # environment answer: how many polls find the result not ready yet
        self.polls = 0

    def ready(self):
        self.polls += 1
        if self._pending > 0:
            self._pending -= 1
            return False
        return True

    def get(self, timeout=None):
        if self._e is not None:
            raise self._e
        return self._v


class VirtualPool:
    def __init__(self, nworkers, schedule=(), completion='fifo', pending=0):
        self.pending = pending
        self.W = nworkers
        self.ncpus = self.nodes = nworkers      # the pathos pool exposes its size under both names
        self.sched = list(schedule)
        self.k = 0
        self.completion = completion
        self.fork_state = None
        self.workers = {}
        self.log = []
        self.batches = 0

    def __enter__(self):
        return self

    def __exit__(self, *a):
        return False

    def close(self):
        pass

    def join(self):
        pass

    def clear(self):
        pass

    # -- internals
    def _chunks(self, items):
        chunksize, extra = divmod(len(items), self.W * 4)
        if extra:
            chunksize += 1
        chunksize = max(1, chunksize)
        return [(i, items[i:i + chunksize]) for i in range(0, len(items), chunksize)]

    def _run(self, f, iterables):
        items = list(zip(*iterables))
        if self.fork_state is None:
            self.fork_state = capture_state()
        payload = dill.dumps(f, recurse=False)
        self.batches += 1
        done = []   # (chunk start, results) in execution order
        for start, chunk in self._chunks(items):
            w = self.sched[self.k] if self.k < len(self.sched) else 0
            self.k += 1
            if not (0 <= w < self.W):
                raise HarnessError(f'schedule names worker {w} but the pool has {self.W}')
            parent = capture_state()
            install_state(self.workers.get(w, self.fork_state))
            try:
                g = dill.loads(payload)
                res = [g(*x) for x in chunk]
            finally:
                self.workers[w] = capture_state()
                install_state(parent)
            self.log.append((self.batches, start, w))
            done.append((start, res))
        return items, done

    # -- ordered APIs: results by input position
    def amap(self, f, *iterables):
        try:
            items, done = self._run(f, iterables)
        except HarnessError:
            raise
        except BaseException as e:  # noqa - the real pool re-raises at get()
            return _Ready(exc=e, pending=self.pending)
        out = [None] * len(items)
        for start, res in done:
            out[start:start + len(res)] = res
        return _Ready(out, pending=self.pending)

    def map(self, f, *iterables):
        return self.amap(f, *iterables).get()

    def imap(self, f, *iterables):
        return iter(self.map(f, *iterables))

    # -- unordered API: yields in the explored completion order
    def uimap(self, f, *iterables):
        items, done = self._run(f, iterables)
        order = list(range(len(done)))
        if self.completion == 'lifo':
            order.reverse()
        elif self.completion == 'rotate':
            order = order[1:] + order[:1]
        for i in order:
            for r in done[i][1]:
                yield r

    def apipe(self, f, *a):
        return _Ready(self.map(f, *[[x] for x in a])[0])

    def pipe(self, f, *a):
        return self.apipe(f, *a).get()


def schedules(n_chunks, W):
    """all assignments of n_chunks successive chunks to W interchangeable workers: restricted growth strings with < W+1 values"""
    a = [0] * n_chunks

    def rec(i, mx):
        if i == n_chunks:
            yield tuple(a)
            return
        for v in range(min(mx + 1, W - 1) + 1):
            a[i] = v
            yield from rec(i + 1, max(mx, v))
    if n_chunks == 0:
        yield ()
        return
    # first chunk always goes to worker 0 (symmetry)
    a[0] = 0
    yield from rec(1, 0)
