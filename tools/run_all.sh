#!/bin/bash
# tools/run_all.sh [quick|thorough] [ids...] : run the checks one after another on the current /repo tree, print one status line each
cd "$(dirname "$(readlink -f "$0")")/.." || exit 2
tier=${1:-quick}; shift
ids=${@:-C01 C02 C03 C04 C05 C06 C07 C08 C09 C10 C11 C12 C13 C14 C15 C16 C17 C18 C19 C20}
fail=0
for c in $ids; do
  out=$(./check $c --tier $tier 2>&1); rc=$?
  echo "$c rc=$rc $(echo "$out" | grep -E "^$c tier" | tail -1)"
  if [ $rc -ne 0 ]; then fail=1; echo "$out" | grep -E "VIOLATION|HARNESS|Error|error" | head -5; fi
done
exit $fail
