#!/venv/bin/python
"""tools/import_seed.py <Cxx> : copy /tmp/seeded_out/<Cxx>/{patch_X.diff,demo_X.py,meta.json} into /verif/seeded/S-<Cxx>-<X>/"""
import json, os, shutil, sys
pid = sys.argv[1]
src = f'/tmp/seeded_out/{pid}'
meta = json.load(open(os.path.join(src, 'meta.json')))
for ch in meta['changes']:
    x = ch['id']
    d = f'/verif/seeded/S-{pid}-{x}'
    os.makedirs(d, exist_ok=True)
    shutil.copy(os.path.join(src, f'patch_{x}.diff'), os.path.join(d, 'patch.diff'))
    shutil.copy(os.path.join(src, f'demo_{x}.py'), os.path.join(d, 'demo.py'))
    m = {'property': pid, 'origin': 'independent sub-agent (given only the property text and a scratch worktree)', 'file': ch.get('file'), 'summary': ch.get('summary'),
         'needs_to_manifest': ch.get('needs_to_manifest'), 'checks': [pid], 'agent_reported': {k: ch.get(k) for k in ('tests_passed', 'demo_fails_with_change', 'demo_passes_without')}}
    json.dump(m, open(os.path.join(d, 'meta.json'), 'w'), indent=1)
    print('imported', d)
