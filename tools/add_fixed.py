#!/venv/bin/python
"""tools/add_fixed.py <property> <commit> <what failed...>  -- append a 'fixed' entry to known_findings.json"""
import json, sys
p = '/verif/known_findings.json'
d = json.load(open(p))
pid, commit, what = sys.argv[1], sys.argv[2], ' '.join(sys.argv[3:])
d['findings'].append({'property': pid, 'status': 'fixed', 'commit': commit, 'what': what,
                      'line': f'fixed: property={pid} {commit} {what}'})
json.dump(d, open(p, 'w'), indent=1)
print('ok', len(d['findings']))
