#!/venv/bin/python
"""tools/seed_eval.py <seeded-dir> [--tests] [--checks C01,C02] [--tier quick]

Confirms a seeded property-breaking change: applies <dir>/patch.diff to /repo (git apply), optionally runs the repository's test
suite, runs <dir>/demo.py (must FAIL with the change), runs the named checks (each must print a VIOLATION line and exit 1), undoes the
change (git checkout -- .), runs the demo again (must PASS).  Records everything in <dir>/meta.json under "confirmation"."""
from __future__ import annotations

import argparse
import json
import os
import subprocess
import sys
import time

REPO = '/repo'
VERIF = '/verif'
PY = '/venv/bin/python'


def sh(cmd, cwd=None, timeout=3600, env=None):
    e = dict(os.environ)
    if env:
        e.update(env)
    p = subprocess.run(cmd, shell=True, cwd=cwd, capture_output=True, text=True, timeout=timeout, env=e)
    return p.returncode, (p.stdout + p.stderr)


def clean():
    rc, out = sh('git status --porcelain --untracked-files=no', cwd=REPO)
    return out.strip() == ''


def main():
    ap = argparse.ArgumentParser()
    ap.add_argument('dir')
    ap.add_argument('--tests', action='store_true')
    ap.add_argument('--checks', default=None)
    ap.add_argument('--tier', default='quick')
    ap.add_argument('--repo', default=None, help='evaluate in this scratch worktree of /repo instead of /repo itself (checks import outrank from it through PYTHONPATH), so that several properties can be evaluated in parallel')
    a = ap.parse_args()
    global REPO
    env = None
    if a.repo:
        REPO = os.path.abspath(a.repo)
        env = {'PYTHONPATH': REPO}
    d = os.path.abspath(a.dir)
    meta_p = os.path.join(d, 'meta.json')
    meta = json.load(open(meta_p)) if os.path.exists(meta_p) else {}
    checks = (a.checks.split(',') if a.checks else meta.get('checks') or [meta.get('property')])
    if not clean():
        print('REPO NOT CLEAN - refusing')
        return 2
    conf = {'at': time.strftime('%Y-%m-%d %H:%M:%S'), 'evaluated_in': REPO, 'repo_head': sh('git rev-parse --short HEAD', cwd=REPO)[1].strip(), 'checks': {}}
    demo = os.path.join(d, 'demo.py')
    replays = []
    try:
        rc, out = sh(f'git apply {d}/patch.diff', cwd=REPO)
        if rc != 0:
            print('patch does not apply:', out[-400:])
            conf['applies'] = False
            return 2
        conf['applies'] = True
        if a.tests:
            rc, out = sh(f'{PY} -m pytest -q -p no:cacheprovider --timeout=900 tests/', cwd=REPO, env=env)
            tail = [l for l in out.strip().splitlines() if 'passed' in l or 'failed' in l][-1:]
            conf['tests'] = {'rc': rc, 'summary': tail[0] if tail else out[-200:]}
            print('tests with change:', conf['tests'])
        if os.path.exists(demo):
            rc, out = sh(f'{PY} {demo}', cwd=REPO, timeout=900, env=env)
            conf['demo_with_change_rc'] = rc
            print('demo with change rc =', rc, '(must be non-zero)')
        for c in checks:
            t0 = time.time()
            rc, out = sh(f'./check {c} --tier {a.tier}', cwd=VERIF, timeout=7200, env=env)
            viol = [l for l in out.splitlines() if l.startswith('VIOLATION')]
            detail = [l.strip() for l in out.splitlines() if l.startswith('   ')][:3]
            conf['checks'][c] = {'rc': rc, 'violation_lines': len(viol), 'first': detail[:2], 'wall_s': round(time.time() - t0, 1), 'tier': a.tier}
            print(f'check {c}: rc={rc} violations={len(viol)} {detail[:1]}')
            # the first replay file must reproduce (twice, identically) without the explorer while the change is applied ...
            if viol:
                rp = viol[0].split('replay=')[-1].strip()
                rrc, rout = sh(f'./check {c} --replay {rp}', cwd=VERIF, timeout=1800, env=env)
                conf['checks'][c]['replay_with_change_rc'] = rrc
                replays.append((c, rp))
                print(f'   replay with change rc={rrc} (must be 1)')
    finally:
        sh('git checkout -- .', cwd=REPO)
    if os.path.exists(demo):
        rc, out = sh(f'{PY} {demo}', cwd=REPO, timeout=900, env=env)
        conf['demo_without_change_rc'] = rc
        print('demo without change rc =', rc, '(must be 0)')
    # ... and must pass on the unchanged tree
    for c, rp in replays:
        rrc, rout = sh(f'./check {c} --replay {rp}', cwd=VERIF, timeout=1800, env=env)
        conf['checks'][c]['replay_without_change_rc'] = rrc
        print(f'   replay without change rc={rrc} (must be 0)')
    conf['detected_by'] = [c for c, r in conf['checks'].items() if r['rc'] == 1 and r['violation_lines'] > 0]
    meta['confirmation'] = conf
    json.dump(meta, open(meta_p, 'w'), indent=1)
    print('detected by:', conf['detected_by'])
    return 0


if __name__ == '__main__':
    sys.exit(main())
