#!/bin/bash
# tools/eval_many.sh <seed-prefix e.g. V-> [extra seed_eval args]: evaluate seeded/<prefix>C??-* in 4 parallel lanes (5 properties each), one scratch worktree of /repo per lane
cd "$(dirname "$(readlink -f "$0")")/.." || exit 2
prefix=$1; shift
mkdir -p /tmp/evalwt
for lane in 1 2 3 4; do
  wt=/tmp/evalwt/w$lane
  [ -d $wt ] || git -C /repo worktree add --detach $wt HEAD -q
  git -C $wt checkout -q --detach $(git -C /repo rev-parse HEAD) 2>/dev/null; git -C $wt checkout -- . 2>/dev/null
  lo=$(( (lane-1)*5+1 )); hi=$(( lane*5 ))
  ( for i in $(seq $lo $hi); do p=$(printf "C%02d" $i); for d in seeded/${prefix}${p}-*; do [ -d "$d" ] || continue; echo "== $d"; timeout 3000 ./tools/seed_eval.py $d --repo $wt "$@" 2>&1 | grep -v condarc | tail -9; done; done ) > /tmp/eval_${prefix}lane$lane.log 2>&1 &
done
wait
cat /tmp/eval_${prefix}lane?.log | grep -E "^==|detected by" | paste - - | awk '{print $2, $5, $6}'
