#!/venv/bin/python
"""Regenerate /verif/MANIFEST.json from the table below; a property is claimed iff its check module exists."""
from __future__ import annotations

import json
import os
import subprocess

VERIF = os.path.dirname(os.path.dirname(os.path.abspath(__file__)))

E = {
    'enum': 'E1 canonical bounded-exhaustive input enumeration (mc/enum.py)',
    'bfs': 'E2 explicit-state breadth-first search over the real object (mc/explore.py:bfs)',
    'choice': 'E3 stateless choice-point exploration with deviation bounding (mc/explore.py:explore_choices)',
    'procs': 'E4 enumeration of process-level nondeterminism in fresh interpreters (mc/procs.py)',
    'seqdiff': 'E5 sequence differential: all short call sequences in one process state vs a pristine state (mc/seqdiff.py)',
}

# pid -> (category, engine, technique, level text, level note, design ref)
T = {
    'C01': ('exploration', 'enum', 'bounded-exhaustive enumeration of all joint partitions (set-partition pairs) against a float64 plug-in MI reference',
            'Every pair of category vectors up to length 6 (quick) / 8 (thorough), in every row order and up to injective renaming, is scored by the real estimator and compared with the textbook formula and its corollaries; scaling families carry the result to 10^6 rows. Exhaustive within the bound, silent beyond it.',
            'numba-compiled estimator as imported from /repo; float32 tolerance 2e-5 absolute + 2e-5 relative per comparison; sizes above the bound are covered by replication/extreme families only.', '3/C01'),
    'C02': ('exploration', 'enum', 'bounded-exhaustive enumeration of vector pairs x injective recodings; metamorphic + reference oracle',
            'All set-partition pairs up to length 6/7 under all permutations of the used codes (complete for <= 4 codes) and fixed offset / reversing / sparse recodings, both correction flags; the self-pair rule is judged against element-wise identity. Includes by construction the equal-sum non-identical pairs.',
            'same estimator entry point as C01; pipeline-level coding checked on string frames of <= 5 rows.', '3/C02'),
    'C03': ('exploration', 'enum', 'bounded-exhaustive enumeration against a float64 displaced-copy reference; finite seed window for the ranking corollary',
            'Exact identity H(Y*|X)-H(Y|X) on every vector pair up to length 6/8; corollaries on complete sets; ranking corollary on a declared seed window.',
            'ranking corollary is a complete enumeration of a finite seed window (moves with VERIF_SEED), not of all seeds.', '3/C03'),
    'C04': ('fault_enumeration', 'choice', 'enumeration of all contents of the never-written slots of the index buffer (choice points) on the interpreted source + groomed-heap runs of the compiled code in fresh processes',
            'Every small input x dyadic ratio x every fill of uninitialised slots from a poison alphabet must give the reference sample; compiled code is run after heap grooming with several poison patterns in fresh interpreters and must terminate, be finite, deterministic and sample-only.',
            'py_func semantics equal compiled semantics except for memory safety, which the fresh-process runs observe; heap grooming controls glibc tcache reuse, not arbitrary layouts.', '3/C04'),
    'C05': ('exploration', 'enum', 'bounded-exhaustive enumeration of small string frames x heuristics x modes through mixed_rank_graph against independent per-heuristic references',
            'All frames with 2 features + label up to 3/4 rows over a coding-stress alphabet, every documented non-surrogate heuristic, both modes.',
            'scikit-learn AMI / numpy corrcoef are trusted as references for their own names.', '3/C05'),
    'C06': ('exploration', 'enum', 'bounded-exhaustive enumeration of column sets x label position x mode x cap through mixed_rank_graph',
            'All column sets up to 6 columns with every label position, 3MR relation names, every cap; one family per size up to 40.',
            'pairs are read from triplet_scores only.', '3/C06'),
    'C07': ('model_checking', 'bfs', 'explicit-state BFS over the real sampler and its process-global counter against a tally model',
            'State graph of the real prior_combinations_sample explored to closure for stable lists (all caps) and to a depth bound for changing/duplicated lists; invariants on every transition.',
            'min-shift canonicalisation argued in DESIGN.md 3/C07; every transition is a real call, so no model/implementation gap.', '3/C07'),
    'C08': ('model_checking', 'bfs', 'exhaustive enumeration of row-kind sequences x batch size x subsampling through the real streaming loop, every batch prefix compared with a reference batcher',
            'All sequences of well-formed/malformed rows up to length 7/10 at every (batch size, factor) in {1,2,3}^2 plus the real 1024-row tail boundary family; recorded batches, invalid count, per-batch checkpoints and final medians compared with an independent reference.',
            'scoring inside a batch is delegated to the real scorer (C05 covers it); in-process pool.', '3/C08'),
    'C09': ('model_checking', 'choice', 'stateless exploration of all assignment/completion schedules of a virtual worker pool + fresh-process grid over hash seeds and real pool sizes',
            'Every schedule of a pathos-contract pool model (W<=3 workers, <=6 chunks, 2 batches) must give the sequential triplet multiset; the real CLI is run over a complete grid of PYTHONHASHSEED x num_threads.',
            'workers are isolated processes and map_async returns in input order (library contract); real OS scheduling is corroborated free-running, not enumerated.', '3/C09'),
    'C10': ('exploration', 'enum', 'bounded-exhaustive enumeration of small string frames over a prefix/suffix-aliasing alphabet through compute_combined_features',
            'All 2-column x 2/3-row frames over 9 adversarial cell values, orders 2..4, caps; equality pattern of each interaction column must equal that of the value tuples.',
            '64-bit hash collisions excluded by the statement.', '3/C10'),
    'C11': ('exploration', 'enum', 'bounded-exhaustive enumeration of small string frames x all subsets of construction flags',
            'Every constructor alone and all flag subsets through compute_batch_ranking on all small frames; additive / row-aligned / rule oracles after each step.',
            'frame recorded by wrapping the module-level constructors.', '3/C11'),
    'C12': ('exploration', 'enum', 'bounded-exhaustive enumeration of short numeric columns over a threshold-derived alphabet x every transformer x preset lists',
            'Every transformer of minimal/default/fw presets on all columns up to length 3 over an alphabet that hits each threshold exactly and from both sides; keep/drop rule on multisets up to length 8; all preset lists up to 3 names.',
            'formula table keyed by transformer name is an independent re-implementation.', '3/C12'),
    'C13': ('model_checking', 'bfs', 'exhaustive enumeration of row sequences x every composition into batches through the real statistics functions; differential across histories + exact recomputation',
            'All two-column row sequences up to length 4/5 over a shared 3-value alphabet, every way of cutting them into batches, thresholds and bounds; final stores must equal the single-batch history and an exact recount.',
            'sketch used below its warm-up capacity.', '3/C13'),
    'C14': ('model_checking', 'bfs', 'explicit-state BFS over scaled-down real HyperLogLogWCache instances + complete checks of declared real-size insertion histories',
            'All insertion sequences over warm-up+3 values to depth warm-up+4 on instances with m=8/16; six real-size streams to 2^21 distinct with duplicates around the switch.',
            '2% clause checked on declared long histories only.', '3/C14'),
    'C15': ('model_checking', 'bfs', 'explicit-state BFS over real CountMinSketch / PrimitiveConstrainedCounter objects for all small shapes and seed residues',
            'All update streams to total weight 8 for every shape depth<=3 x width<=4 x every seed residue; all item streams to length 6/8 for the bounded counter.',
            'integer weights only (matrix is int32).', '3/C15'),
    'C16': ('exploration', 'enum', 'bounded-exhaustive enumeration of tables of cells rendered in every supported format and parsed back',
            'All tables up to 3 columns over a 10-value cell alphabet rendered as CSV (2 quoting modes, 2 line endings), TSV and VW lines; namespace maps up to 3 lines.',
            'csv.writer is the trusted renderer.', '3/C16'),
    'C17': ('exploration', 'enum', 'bounded-exhaustive enumeration of score dictionaries (deviation-bounded sparse pair entries) against a greedy-optimality oracle',
            'All relevance vectors over 4 values for n<=4, all placements of <=2/3 non-default pair entries, 3 strategies, 5 (alpha,beta).',
            'any maximiser accepted on ties.', '3/C17'),
    'C18': ('exploration', 'enum', 'bounded-exhaustive enumeration of small pairwise_ranks.tsv files through outrank_task_result_summary',
            'All files up to 4/5 rows over a pair/score alphabet; medians, order, normalisation and aggregated table recomputed.',
            'names the TSV format cannot represent are outside the alphabet.', '3/C18'),
    'C19': ('exploration', 'choice', 'choice-point exploration with the random generator as environment + finite seed/parameter grid',
            'Every answer of numpy.random for tiny generate_data configurations (deviation-bounded), plus a real-generator grid.',
            'controlled generator answers cover the support of the real one.', '3/C19'),
    'C20': ('exploration', 'enum', 'bounded-exhaustive enumeration of small sources / index selections / class counts with controlled random answers',
            'All small source columns x r x index selections; labels, noise, duplicates, combinations, down-sampling recomputed.',
            'collinear normal draws (probability zero) excluded.', '3/C20'),
}


SEQDIFF = {'C03', 'C05', 'C06', 'C08', 'C10', 'C11', 'C12', 'C16', 'C17', 'C18'}
EXTRA = {
    'C04': ' Larger structured vectors (n up to 48) and the flag as given on the real command line are covered by directed families.',
    'C05': ' Directed families: column names containing the label name, 300- and 40 000-category columns, code-magnitude grid for the coverage heuristic.',
    'C07': ' End-to-end families: batches through compute_batch_ranking (growing candidate lists, Constant heuristic) and the complete task with a trailing partial batch.',
    'C08': ' Every small file is also run through the real command-line entry point with relative paths and without a final newline.',
    'C09': ' Worker-local state = every module-level container of every outrank module; completion orders of the unordered API and pending polls are explored as further schedule deviations.',
    'C13': ' End-to-end family through the task and the command line (annotation on/off, thresholds below/above the batch size).',
    'C14': ' The sketches are also driven the way the pipeline feeds them (compute_cardinalities over several batches).',
    'C16': ' The ob-vw source is exercised end to end (namespace map + gzipped file -> streaming loop).',
    'C17': ' 24 real pairwise 3MR tasks are judged against dictionaries rebuilt from pairwise_ranks.tsv.',
    'C19': ' One generator object is also reused across calls (non-initial states).',
    'C20': ' One generator object is also reused across calls; float data sets for the noise family.',
}


def main():
    checks, na, serves = [], [], {k: [] for k in E}
    for pid in sorted(T):
        cat, eng, tech, text, note, ref = T[pid]
        text = text + EXTRA.get(pid, '') + (' A sequence differential (mc/seqdiff.py) runs every sequence of <= 2-3 calls in one process state against a pristine state.' if pid in SEQDIFF else '')
        if not os.path.exists(os.path.join(VERIF, 'mc', 'checks', pid.lower() + '.py')):
            na.append({'property_id': pid, 'reason': 'check not built yet in this revision of /verif (planned, see DESIGN.md section 3); not claimed until it exists'})
            continue
        serves[eng].append(pid)
        if pid in SEQDIFF:
            serves['seqdiff'].append(pid)
        checks.append({
            'property_id': pid,
            'quick_cmd': f'./check {pid} --tier quick',
            'thorough_cmd': f'./check {pid} --tier thorough',
            'evidence_file': f'/verif/evidence/{pid}.json',
            'replay_cmd_template': f'./check {pid} --replay {{path}}',
            'engine': eng,
            'level_claimed': {'category': cat, 'text': text, 'design_ref': f'DESIGN.md section {ref}'},
            'level_note': note,
            'technique': tech,
        })
    hooks_commits = []
    man = {
        'version': 1,
        'setup_cmd': './setup.sh',
        'hooks': {
            'guard': 'OUTRANK_VERIF',
            'enable': 'no source hooks: all seams are injected arguments or module attributes; ./check exports OUTRANK_VERIF=1 for uniformity',
            'baseline_off_cmd': 'cd /repo && env -u OUTRANK_VERIF /venv/bin/python -m pytest -ra -q -p no:cacheprovider --timeout=900 --continue-on-collection-errors',
            'source_commits': hooks_commits,
            'add_only': True,
        },
        'engines': [{'name': k, 'path': {'enum': 'mc/enum.py', 'bfs': 'mc/explore.py', 'choice': 'mc/explore.py', 'procs': 'mc/procs.py', 'seqdiff': 'mc/seqdiff.py'}[k],
                     'serves_properties': v, 'kind_free_text': E[k]} for k, v in serves.items()],
        'checks': checks,
        'not_applicable': na,
        'notes': 'Model checking directly on the implementation (no separate model except the virtual worker pool of C09). See DESIGN.md. Genuine defects found are repaired by fix: commits in /repo and listed in known_findings.json.',
    }
    with open(os.path.join(VERIF, 'MANIFEST.json'), 'w') as f:
        json.dump(man, f, indent=1)
    r = subprocess.run(['python3-vt', '-c', '''
import json, jsonschema
jsonschema.validate(json.load(open("/verif/MANIFEST.json")), json.load(open("/root/.vp/MANIFEST.schema.json")))
print("MANIFEST valid")'''], capture_output=True, text=True)
    print(r.stdout.strip(), r.stderr.strip()[-500:])
    print('claimed:', [c['property_id'] for c in checks])


if __name__ == '__main__':
    main()
