#!/bin/bash
python3-vt - <<'PY'
import json, jsonschema, glob
sch = json.load(open("/root/.vp/EVIDENCE.schema.json"))
for p in sorted(glob.glob("/verif/evidence/*.json")):
    try:
        jsonschema.validate(json.load(open(p)), sch); print("valid", p)
    except Exception as e:
        print("INVALID", p, str(e)[:300])
PY
